import PynnVerif.Gen.SearchGraphKernels
import PynnVerif.Proofs.Diversify
import PynnVerif.Proofs.GenMerge

/-! # The translated `degree_prune_internal` refines the model `degreePrune`

`Gen/SearchGraphKernels.lean` (namespace `Pynn.GenSG`) is regenerated from the source text of
`pynndescent/pynndescent_.py` by `harness/translate_searchgraph.py`.  `np.sort` is the
uninterpreted `SortFn.sortArr`; the theorems assume `hsort`: it returns the model's `sortP` of
its argument — which (`sortArr_eq_sortP`) is what ANY ascending permutation is, over a linear order. -/
set_option linter.unusedSectionVars false
set_option linter.unusedVariables false
set_option linter.unusedSimpArgs false
namespace Pynn.GenSearchGraphProofs
open Pynn.Div Pynn.GenK Pynn.GenSG
open Pynn.GenMerge (rd_lt wr_lt)

section
variable {P : Type} [LT P] [DecidableLT P] [OfNat P 0]

/-- `if data[j] > cut_value: data[j] = 0.0` -/
def cutF (cut v : P) : P := if cut < v then 0 else v

/-- `f` applied to the cells `lo ≤ p < hi` -/
def mapRange (f : P → P) (lo hi : Nat) (a : Array P) : Array P :=
  a.mapIdx (fun p v => if lo ≤ p ∧ p < hi then f v else v)

@[simp] theorem mapRange_size (f : P → P) (lo hi : Nat) (a : Array P) : (mapRange f lo hi a).size = a.size := by
  simp [mapRange]

theorem getElem?_mapRange (f : P → P) (lo hi : Nat) (a : Array P) (p : Nat) :
    (mapRange f lo hi a)[p]? = (a[p]?).map (fun v => if lo ≤ p ∧ p < hi then f v else v) := by
  simp [mapRange, Array.getElem?_mapIdx]

theorem mapRange_step (f : P → P) (j hi : Nat) (a a' : Array P) (hj : j < a.size)
    (h : ∀ p, a'[p]? = if p = j then some (f a[j]) else a[p]?) (hjh : j < hi) :
    mapRange f (j + 1) hi a' = mapRange f j hi a := by
  apply Array.ext_getElem?
  intro p
  rw [getElem?_mapRange, getElem?_mapRange, h p]
  by_cases e : p = j
  · subst e
    have n1 : ¬ (p + 1 ≤ p ∧ p < hi) := by omega
    have n2 : p ≤ p ∧ p < hi := ⟨Nat.le_refl _, hjh⟩
    simp [hj, n2]
    omega
  · simp only [if_neg e]
    cases a[p]? with
    | none => rfl
    | some v =>
      have : (j + 1 ≤ p ∧ p < hi) ↔ (j ≤ p ∧ p < hi) := by omega
      simp [this]

theorem mapRange_empty (f : P → P) (j : Nat) (a : Array P) : mapRange f j j a = a := by
  apply Array.ext_getElem?
  intro p
  rw [getElem?_mapRange]
  have : ¬ (j ≤ p ∧ p < j) := by omega
  cases a[p]? <;> simp [this]

/-- inner loop: `for j in range(indptr[i], indptr[i+1]): if data[j] > cut_value: data[j] = 0.0` -/
theorem prune_loop1 (cut : P) (hi : Nat) :
    ∀ (fuel j : Nat) (data : Array P), j ≤ hi → hi ≤ data.size → hi - j + 1 ≤ fuel →
      degree_prune_internal.loop1 cut (hi : Int) fuel data (j : Int)
        = some (.next (mapRange (cutF cut) j hi data, (hi : Int))) := by
  intro fuel
  induction fuel with
  | zero => intro j data hj hh hf; omega
  | succ fuel ih =>
    intro j data hj hh hf
    rw [degree_prune_internal.loop1]
    by_cases c : j < hi
    · have c' : (j : Int) < (hi : Int) := Int.ofNat_lt.2 c
      have hjs : j < data.size := by omega
      have ej : (j : Int) + 1 = ((j + 1 : Nat) : Int) := by omega
      simp only [c', if_true, rd_lt data j hjs, Option.bind_eq_bind, Option.bind_some, ej]
      by_cases g : data[j] > cut
      · simp only [g, if_true, wr_lt data j _ hjs, Option.bind_some]
        rw [ih (j + 1) _ (by omega) (by simpa using hh) (by omega)]
        congr 3
        apply mapRange_step (cutF cut) j hi data _ hjs _ c
        intro p
        have g' : cut < data[j] := g
        simp only [cutF, g', if_true, Array.getElem?_setIfInBounds, hjs]
        by_cases e : p = j
        · subst e; simp
        · simp [e, Ne.symm e]
      · simp only [g, if_false]
        rw [ih (j + 1) _ (by omega) hh (by omega)]
        congr 3
        apply mapRange_step (cutF cut) j hi data _ hjs _ c
        intro p
        have g' : ¬ cut < data[j] := g
        simp only [cutF, g', if_false]
        by_cases e : p = j
        · subst e; simp [hjs]
        · simp [e]
    · have c' : ¬ (j : Int) < (hi : Int) := by omega
      have e : j = hi := by omega
      subst e
      simp only [c', if_false, Option.pure_def, mapRange_empty]

variable [SortFn P]

/-- `indptr[i]` as a natural number (`0` beyond the array: never used there) -/
def ptr (indptr : Array Int) (i : Nat) : Nat := (indptr.getD i 0).toNat

/-- one iteration of the outer loop, as a function of the current `data` -/
def pruneStep (m : Nat) (indptr : Array Int) (data : Array P) (i : Nat) : Array P :=
  let row := data.extract (ptr indptr i) (ptr indptr (i + 1))
  if m < row.size then
    match (SortFn.sortArr row)[m - 1]? with
    | some cut => mapRange (cutF cut) (ptr indptr i) (ptr indptr (i + 1)) data
    | none => data
  else data

/-- the outer loop over the rows `k, k+1, …, k+c-1` -/
def pruneFrom (m : Nat) (indptr : Array Int) : Nat → Nat → Array P → Array P
  | 0, _, d => d
  | c + 1, k, d => pruneFrom m indptr c (k + 1) (pruneStep m indptr d k)

theorem pruneStep_size (m : Nat) (indptr : Array Int) (data : Array P) (i : Nat) :
    (pruneStep m indptr data i).size = data.size := by
  unfold pruneStep
  simp only
  split
  · split <;> simp
  · rfl

/-- well-formed CSR row pointers: non-negative, non-decreasing, the last one within `data` -/
structure CsrOk (indptr : Array Int) (dsize : Nat) : Prop where
  nonneg : ∀ i (h : i < indptr.size), 0 ≤ indptr[i]
  mono : ∀ i j, i ≤ j → j < indptr.size → ptr indptr i ≤ ptr indptr j
  last : ∀ i, i < indptr.size → ptr indptr i ≤ dsize

theorem ptr_eq (indptr : Array Int) (i : Nat) (h : i < indptr.size) (hn : 0 ≤ indptr[i]) :
    indptr[i] = ((ptr indptr i : Nat) : Int) := by
  simp only [ptr, Array.getD, h, dif_pos, Array.getInternal_eq_getElem]
  omega

/-- outer loop -/
theorem prune_loop0 (m : Nat) (hm : 0 < m) (indptr : Array Int) (D : Nat) (hc : CsrOk indptr D)
    (hs : ∀ a : Array P, (SortFn.sortArr a).size = a.size) (hn : 0 < indptr.size) :
    ∀ (fuel k : Nat) (data : Array P), data.size = D → k ≤ indptr.size - 1 →
      (indptr.size - 1 - k) + D + 2 ≤ fuel →
      degree_prune_internal.loop0 indptr (m : Int) ((indptr.size : Int) - 1) fuel data (k : Int)
        = some (.next (pruneFrom m indptr (indptr.size - 1 - k) k data, (indptr.size : Int) - 1)) := by
  intro fuel
  induction fuel with
  | zero => intro k data hd hk hf; omega
  | succ fuel ih =>
    intro k data hd hk hf
    rw [degree_prune_internal.loop0]
    by_cases c : k < indptr.size - 1
    · have c' : (k : Int) < (indptr.size : Int) - 1 := by omega
      have ek : (k : Int) + 1 = ((k + 1 : Nat) : Int) := by omega
      have h0 : k < indptr.size := by omega
      have h1 : k + 1 < indptr.size := by omega
      have p0 := ptr_eq indptr k h0 (hc.nonneg k h0)
      have p1 := ptr_eq indptr (k + 1) h1 (hc.nonneg (k + 1) h1)
      have hle : ptr indptr k ≤ ptr indptr (k + 1) := hc.mono k (k + 1) (by omega) h1
      have hhi : ptr indptr (k + 1) ≤ D := hc.last (k + 1) h1
      have hcnt : indptr.size - 1 - k = (indptr.size - 1 - (k + 1)) + 1 := by omega
      have hsl : slice data ((ptr indptr k : Nat) : Int) ((ptr indptr (k + 1) : Nat) : Int)
          = some (data.extract (ptr indptr k) (ptr indptr (k + 1))) := by
        simp [slice]
      simp only [c', if_true, ek, rd_lt indptr k h0, rd_lt indptr (k + 1) h1, p0, p1, hsl,
        Option.bind_eq_bind, Option.bind_some]
      rw [hcnt, pruneFrom]
      have hrow : (data.extract (ptr indptr k) (ptr indptr (k + 1))).size
          = ptr indptr (k + 1) - ptr indptr k := by
        simp [Array.size_extract]; omega
      by_cases g : m < (data.extract (ptr indptr k) (ptr indptr (k + 1))).size
      · have g' : ((data.extract (ptr indptr k) (ptr indptr (k + 1))).size : Int) > (m : Int) := by
          exact_mod_cast g
        have hidx : m - 1 < (SortFn.sortArr (data.extract (ptr indptr k) (ptr indptr (k + 1)))).size := by
          rw [hs]; omega
        have em : (m : Int) - 1 = ((m - 1 : Nat) : Int) := by omega
        simp only [g', if_true, em, rd_lt _ (m - 1) hidx, Option.bind_some]
        rw [prune_loop1 _ (ptr indptr (k + 1)) fuel (ptr indptr k) data hle (by omega) (by omega)]
        simp only [Option.bind_some]
        have hst : pruneStep m indptr data k
            = mapRange (cutF (SortFn.sortArr (data.extract (ptr indptr k) (ptr indptr (k + 1))))[m - 1])
                (ptr indptr k) (ptr indptr (k + 1)) data := by
          unfold pruneStep
          simp only [g, if_true, Array.getElem?_eq_getElem hidx]
        rw [hst]
        exact ih (k + 1) _ (by simpa using hd) (by omega) (by omega)
      · have g' : ¬ ((data.extract (ptr indptr k) (ptr indptr (k + 1))).size : Int) > (m : Int) := by
          intro h; apply g; exact_mod_cast h
        have hst : pruneStep m indptr data k = data := by
          unfold pruneStep; simp only [g, if_false]
        simp only [g', if_false]
        rw [hst]
        exact ih (k + 1) _ hd (by omega) (by omega)
    · have c' : ¬ (k : Int) < (indptr.size : Int) - 1 := by omega
      have e : indptr.size - 1 - k = 0 := by omega
      have e2 : (k : Int) = (indptr.size : Int) - 1 := by omega
      simp only [c', if_false, Option.pure_def, e, pruneFrom]
      rw [e2]

/-- **`degree_prune_internal` (translated) = the outer loop `pruneFrom` over all rows, memory
safe**: no out-of-bounds load or store, fuel `≥ rows + data.size + 2` -/
theorem degree_prune_internal_run (m : Nat) (hm : 0 < m) (indptr : Array Int) (data : Array P)
    (hc : CsrOk indptr data.size) (hs : ∀ a : Array P, (SortFn.sortArr a).size = a.size)
    (hn : 0 < indptr.size) (fuel : Nat) (hf : indptr.size + data.size + 2 ≤ fuel) :
    GenSG.degree_prune_internal fuel indptr data (m : Int)
      = some (pruneFrom m indptr (indptr.size - 1) 0 data) := by
  have L := prune_loop0 m hm indptr data.size hc hs hn fuel 0 data rfl (by omega) (by omega)
  have e0 : ((0 : Nat) : Int) = 0 := rfl
  rw [e0] at L
  simp only [GenSG.degree_prune_internal, L, Option.bind_eq_bind, Option.bind_some, Option.pure_def]
  rfl

end
/-! ### row by row: the outer loop computes the model's `degreePrune` of every CSR row -/
section Rows
variable {P : Type} [LE P] [LT P] [DecidableLE P] [DecidableLT P] [OfNat P 0] [SortFn P]

/-- the stored lengths of row `i` -/
def rowOf (indptr : Array Int) (d : Array P) (i : Nat) : Array P :=
  d.extract (ptr indptr i) (ptr indptr (i + 1))

/-- what `degree_prune_internal` makes of the lengths of one row -/
def prunedVals (m : Nat) (row : Array P) : Array P :=
  if m < row.size then
    match (SortFn.sortArr row)[m - 1]? with
    | some cut => row.map (cutF cut)
    | none => row
  else row

theorem extract_congr (a b : Array P) (lo hi : Nat) (hs : a.size = b.size)
    (h : ∀ p, lo ≤ p → p < hi → a[p]? = b[p]?) : a.extract lo hi = b.extract lo hi := by
  apply Array.ext_getElem?
  intro q
  rw [Array.getElem?_extract, Array.getElem?_extract, hs]
  split
  · rename_i hq
    exact h _ (by omega) (by omega)
  · rfl

theorem extract_mapRange (f : P → P) (lo hi : Nat) (d : Array P) (hh : hi ≤ d.size) :
    (mapRange f lo hi d).extract lo hi = (d.extract lo hi).map f := by
  apply Array.ext_getElem?
  intro q
  rw [Array.getElem?_extract, Array.getElem?_map, Array.getElem?_extract, mapRange_size, getElem?_mapRange]
  split
  · rename_i hq
    have : lo ≤ lo + q ∧ lo + q < hi := by omega
    simp [this]
  · rfl

theorem pruneStep_outside (m : Nat) (indptr : Array Int) (d : Array P) (k p : Nat)
    (h : ¬ (ptr indptr k ≤ p ∧ p < ptr indptr (k + 1))) : (pruneStep m indptr d k)[p]? = d[p]? := by
  unfold pruneStep
  simp only
  split
  · split
    · rw [getElem?_mapRange]; cases d[p]? <;> simp [h]
    · rfl
  · rfl

theorem rowOf_pruneStep (m : Nat) (indptr : Array Int) (d : Array P) (k : Nat)
    (hh : ptr indptr (k + 1) ≤ d.size) :
    rowOf indptr (pruneStep m indptr d k) k = prunedVals m (rowOf indptr d k) := by
  unfold pruneStep prunedVals rowOf
  simp only
  split
  · split
    · exact extract_mapRange _ _ _ d hh
    · rfl
  · rfl

theorem pruneFrom_rows (m : Nat) (indptr : Array Int) (data : Array P) (hc : CsrOk indptr data.size) :
    ∀ (c k : Nat) (d : Array P), k + c = indptr.size - 1 → d.size = data.size →
      (∀ p, ptr indptr k ≤ p → d[p]? = data[p]?) →
      (∀ i, i < k → rowOf indptr d i = prunedVals m (rowOf indptr data i)) →
      ∀ i, i < indptr.size - 1 →
        rowOf indptr (pruneFrom m indptr c k d) i = prunedVals m (rowOf indptr data i) := by
  intro c
  induction c with
  | zero =>
    intro k d hk hd hrest hdone i hi
    exact hdone i (by omega)
  | succ c ih =>
    intro k d hk hd hrest hdone i hi
    rw [pruneFrom]
    have h1 : k + 1 < indptr.size := by omega
    have hle : ptr indptr k ≤ ptr indptr (k + 1) := hc.mono k (k + 1) (by omega) h1
    have hhi : ptr indptr (k + 1) ≤ data.size := hc.last (k + 1) h1
    refine ih (k + 1) (pruneStep m indptr d k) (by omega) (by rw [pruneStep_size, hd]) ?_ ?_ i hi
    · intro p hp
      rw [pruneStep_outside m indptr d k p (by omega)]
      exact hrest p (by omega)
    · intro i' hi'
      by_cases e : i' = k
      · subst e
        rw [rowOf_pruneStep m indptr d i' (by rw [hd]; exact hhi)]
        congr 1
        exact extract_congr d data _ _ hd (fun p hp _ => hrest p hp)
      · have hlt : i' < k := by omega
        rw [← hdone i' hlt]
        have hb : ptr indptr (i' + 1) ≤ ptr indptr k := hc.mono (i' + 1) k (by omega) (by omega)
        exact extract_congr _ d _ _ (by rw [pruneStep_size]) (fun p _ hp =>
          pruneStep_outside m indptr d k p (by omega))

/-- the model's `degreePrune` on the row `(column, length)` is the lengths' `prunedVals`, the
columns untouched — under `hsort`: `sortArr` is the model's `sortP` -/
theorem prunedVals_model (m : Nat) (hm : 0 < m)
    (hsort : ∀ a : Array P, (SortFn.sortArr a).toList = sortP a.toList)
    (cols : List Int) (row : Array P) (hl : cols.length = row.size) :
    cols.zip (prunedVals m row).toList = degreePrune (0 : P) m (cols.zip row.toList) := by
  have hlen : (cols.zip row.toList).length = row.size := by simp [hl]
  have hsnd : (cols.zip row.toList).map (·.2) = row.toList := by
    apply List.map_snd_zip; simp [hl]
  have hcut : cutValue m row.toList = (SortFn.sortArr row)[m - 1]? := by
    unfold cutValue
    rw [if_neg (by omega), ← hsort, Array.getElem?_toList]
  unfold degreePrune prunedVals
  rw [hlen, hsnd, hcut]
  by_cases g : m < row.size
  · simp only [g, if_true]
    cases hx : (SortFn.sortArr row)[m - 1]? with
    | none => rfl
    | some cut =>
      simp only [Array.toList_map, List.zip_map_right]
      apply List.map_congr_left
      intro e _
      obtain ⟨c0, v0⟩ := e
      unfold cutF
      by_cases hv : cut < v0 <;> simp [Prod.map, hv]
  · simp only [g, if_false]

end Rows

/-! ### `diversify` (dense, forward): the scan loop and the candidate loop of one row -/
section Diversify
variable {P : Type} [LE P] [LT P] [DecidableLE P] [DecidableLT P] [OfNat P 0] [SortFn P] [DivParams P]

/-- two parallel arrays as the model's list of entries -/
def ents (a : Array Int) (b : Array P) : List (Ent P) := a.toList.zip b.toList

/-- the generator tests of row `i` as the model takes them -/
def drawOf (P : Type) [DivParams P] (i : Nat) : Nat → Bool := fun c => DivParams.draw P (i : Int) (c : Int)

theorem ents_drop_lt (a : Array Int) (b : Array P) (h : a.size = b.size) (k : Nat) (hk : k < a.size) :
    (ents a b).drop k = (a[k], b[k]'(h ▸ hk)) :: (ents a b).drop (k + 1) := by
  have hl : k < (ents a b).length := by simp [ents, h]; omega
  rw [List.drop_eq_getElem_cons hl]
  simp [ents]

theorem ents_drop_ge (a : Array Int) (b : Array P) (k : Nat) (hk : a.size ≤ k) : (ents a b).drop k = [] := by
  apply List.drop_eq_nil_of_le
  simp [ents]; omega

theorem ents_push (a : Array Int) (b : Array P) (h : a.size = b.size) (x : Int) (y : P) :
    ents (a.push x) (b.push y) = ents a b ++ [(x, y)] := by
  have hl : a.toList.length = b.toList.length := by simp [h]
  simp [ents, List.zip_append hl]

/-- the scan `for k in range(len(new_indices))` of one candidate = the model's `scanNew` -/
theorem diversify_loop2 (indices : Array (Array Int)) (distances : Array (Array P)) (data : Array (Array P))
    (i j : Nat) (hi : i < indices.size) (hd : i < distances.size) (hj : j < indices[i].size)
    (hjd : j < distances[i].size) (ni : Array Int) (nd : Array P) (hn : ni.size = nd.size) :
    ∀ (fuel k c : Nat) (flag : Bool), k ≤ ni.size → ni.size - k + 1 ≤ fuel →
      ∃ k' : Int, diversify.loop2 indices distances data () (i : Int) ni nd (j : Int) (ni.size : Int) fuel
          (c : Int) flag (k : Int)
        = some (.next (((scanNew DivParams.eps DivParams.dist (drawOf P i) indices[i][j] distances[i][j]
              ((ents ni nd).drop k) c).2 : Nat),
            (if (scanNew DivParams.eps DivParams.dist (drawOf P i) indices[i][j] distances[i][j]
              ((ents ni nd).drop k) c).1 then flag else false), k')) := by
  intro fuel
  induction fuel with
  | zero => intro k c flag hk hf; omega
  | succ fuel ih =>
    intro k c flag hk hf
    rw [diversify.loop2]
    by_cases ck : k < ni.size
    · have ck' : (k : Int) < (ni.size : Int) := Int.ofNat_lt.2 ck
      have ek : (k : Int) + 1 = ((k + 1 : Nat) : Int) := by omega
      have ec : (c : Int) + 1 = ((c + 1 : Nat) : Int) := by omega
      rw [ents_drop_lt ni nd hn k ck, scanNew]
      simp only [ck', if_true, rd_lt ni k ck, rd_lt nd k (hn ▸ ck), rd_lt indices i hi, rd_lt distances i hd,
        rd_lt indices[i] j hj, rd_lt distances[i] j hjd, Option.bind_eq_bind, Option.bind_some, ek, ec]
      by_cases c1 : (DivParams.eps : P) < nd[k]'(hn ▸ ck)
      · have c1' : nd[k]'(hn ▸ ck) > (DivParams.eps : P) := c1
        simp only [c1', if_true]
        by_cases c2 : (DivParams.dist indices[i][j] ni[k] : P) < distances[i][j]
        · simp only [c2, if_true, c1, and_self]
          by_cases c3 : DivParams.draw P (i : Int) (c : Int) = true
          · have c3' : drawOf P i c = true := c3
            simp only [c3, c3', if_true]
            exact ⟨_, rfl⟩
          · have c3' : ¬ drawOf P i c = true := c3
            simp only [c3, c3', if_false, Bool.false_eq_true]
            exact ih (k + 1) (c + 1) flag (by omega) (by omega)
        · simp only [c2, if_false, c1, and_false]
          exact ih (k + 1) c flag (by omega) (by omega)
      · have c1' : ¬ nd[k]'(hn ▸ ck) > (DivParams.eps : P) := c1
        simp only [c1', if_false, c1, false_and]
        exact ih (k + 1) c flag (by omega) (by omega)
    · have ck' : ¬ (k : Int) < (ni.size : Int) := by omega
      rw [ents_drop_ge ni nd k (by omega), scanNew]
      simp only [ck', if_false, Option.pure_def, if_true]
      exact ⟨_, rfl⟩

/-- the candidate loop `for j in range(1, width)` of one row = the model's `divLoop` -/
theorem diversify_loop1 (indices : Array (Array Int)) (distances : Array (Array P)) (data : Array (Array P))
    (i : Nat) (hi : i < indices.size) (hd : i < distances.size) (hw : indices[i].size = distances[i].size) :
    ∀ (fuel j c : Nat) (ni : Array Int) (nd : Array P), ni.size = nd.size → j ≤ indices[i].size →
      ni.size ≤ j → (indices[i].size - j) + indices[i].size + 2 ≤ fuel →
      ∃ (c' j' : Int) (ni' : Array Int) (nd' : Array P),
        diversify.loop1 indices distances data () (i : Int) (indices[i].size : Int) fuel (c : Int) ni nd (j : Int)
          = some (.next (c', ni', nd', j')) ∧ ni'.size = nd'.size ∧
        ni'.size ≤ ni.size + (indices[i].size - j) ∧
        ents ni' nd' = (divLoop DivParams.eps DivParams.dist (drawOf P i)
          ((ents indices[i] distances[i]).drop j) (ents ni nd) c).1 := by
  intro fuel
  induction fuel with
  | zero => intro j c ni nd hn hj hs hf; omega
  | succ fuel ih =>
    intro j c ni nd hn hj hs hf
    rw [diversify.loop1]
    by_cases cj : j < indices[i].size
    · have cj' : (j : Int) < (indices[i].size : Int) := Int.ofNat_lt.2 cj
      have ej : (j : Int) + 1 = ((j + 1 : Nat) : Int) := by omega
      have hjd : j < distances[i].size := hw ▸ cj
      rw [ents_drop_lt indices[i] distances[i] hw j cj, divLoop]
      simp only [cj', if_true, rd_lt indices i hi, rd_lt distances i hd, rd_lt indices[i] j cj,
        rd_lt distances[i] j hjd, Option.bind_eq_bind, Option.bind_some, ej]
      by_cases cn : indices[i][j] < 0
      · simp only [cn, if_true, Option.pure_def]
        exact ⟨_, _, ni, nd, rfl, hn, by omega, rfl⟩
      · simp only [cn, if_false]
        obtain ⟨k', hL⟩ := diversify_loop2 indices distances data i j hi hd cj hjd ni nd hn fuel 0 c true
          (by omega) (by omega)
        have e0 : ((0 : Nat) : Int) = 0 := rfl
        rw [e0, List.drop_zero] at hL
        simp only [hL, Option.bind_some]
        by_cases cf : (scanNew DivParams.eps DivParams.dist (drawOf P i) indices[i][j] distances[i][j]
            (ents ni nd) c).1 = true
        · simp only [cf, if_true]
          obtain ⟨c', j', ni', nd', h1, h2, h3, h4⟩ := ih (j + 1) _ (ni.push indices[i][j])
            (nd.push distances[i][j]) (by simp [hn]) (by omega) (by simp; omega) (by omega)
          refine ⟨c', j', ni', nd', h1, h2, by simp at h3; omega, ?_⟩
          rw [h4, ents_push ni nd hn]
        · simp only [cf, if_false, Bool.false_eq_true]
          obtain ⟨c', j', ni', nd', h1, h2, h3, h4⟩ := ih (j + 1) _ ni nd hn (by omega) (by omega) (by omega)
          exact ⟨c', j', ni', nd', h1, h2, by omega, h4⟩
    · have cj' : ¬ (j : Int) < (indices[i].size : Int) := by omega
      rw [ents_drop_ge indices[i] distances[i] j (by omega), divLoop]
      simp only [cj', if_false, Option.pure_def]
      exact ⟨_, _, ni, nd, rfl, hn, by omega, rfl⟩

/-- the candidate loop as `diversify` starts it for row `i` (`new_* = [entry 0]`, `j = 1`, a fresh
generator) computes the model's `new_*` lists of the row: `(diversifyList … row).1` -/
theorem diversify_row_new (indices : Array (Array Int)) (distances : Array (Array P)) (data : Array (Array P))
    (i : Nat) (hi : i < indices.size) (hd : i < distances.size) (hw : indices[i].size = distances[i].size)
    (h0 : 0 < indices[i].size) (fuel : Nat) (hf : 2 * indices[i].size + 2 ≤ fuel) :
    ∃ (c' j' : Int) (ni' : Array Int) (nd' : Array P),
      diversify.loop1 indices distances data () (i : Int) (indices[i].size : Int) fuel 0
          #[indices[i][0]] #[distances[i][0]'(hw ▸ h0)] 1
        = some (.next (c', ni', nd', j')) ∧ ni'.size = nd'.size ∧ ni'.size ≤ indices[i].size ∧
      ents ni' nd' = (diversifyList DivParams.eps DivParams.dist (drawOf P i)
        (ents indices[i] distances[i])).1 := by
  obtain ⟨c', j', ni', nd', h1, h2, h3, h4⟩ := diversify_loop1 indices distances data i hi hd hw fuel 1 0
    #[indices[i][0]] #[distances[i][0]'(hw ▸ h0)] (by simp) (by omega) (by simp) (by omega)
  refine ⟨c', j', ni', nd', h1, h2, by simp at h3; omega, ?_⟩
  rw [h4]
  have e := ents_drop_lt indices[i] distances[i] hw 0 h0
  rw [List.drop_zero] at e
  rw [e, diversifyList]
  rfl

end Diversify

end Pynn.GenSearchGraphProofs
