import PynnVerif.Proofs.SparseIndex
import Mathlib.Algebra.Order.Ring.Defs
import Mathlib.Algebra.Order.Ring.Abs

/-! # Sparse metrics on encodings equal the dense metrics (helpers for C08) -/
set_option linter.unusedSectionVars false
namespace Pynn.Sparse
variable {α : Type} [DecidableEq α]

/-! ### sums over the difference / product vector -/
section RingMetrics
variable [Ring α]

theorem sqEuclidean_enc (x y : List α) (h : x.length = y.length) :
    sqEuclidean (enc x) (enc y) = Dense.sqEuclidean x y := by
  unfold sqEuclidean Dense.sqEuclidean
  rw [sparseDiff_enc x y h, foldl_enc (fun r d => r + d * d) (by intro r; simp)]
  exact (foldl_zip (fun r d => r + d * d) (· - ·) x y 0).symm

theorem mulSum_enc (x y : List α) (h : x.length = y.length) :
    mulSum (enc x) (enc y) = Dense.dot x y := by
  unfold mulSum Dense.dot
  rw [sparseMul_enc x y h, foldl_enc (fun r d => r + d) (by intro r; simp)]
  exact (foldl_zip (fun r d => r + d) (· * ·) x y 0).symm

theorem normSq_enc (x : List α) : normSq (enc x) = Dense.normSq x := by
  unfold normSq Dense.normSq
  exact foldl_enc (fun r d => r + d * d) (by intro r; simp) x 0

theorem dataSum_enc (x : List α) : dataSum (enc x) = Dense.sum x := by
  unfold dataSum Dense.sum
  exact foldl_enc (fun r d => r + d) (by intro r; simp) x 0

theorem hellingerSum_enc (sqrt : α → α) (h0 : sqrt 0 = 0) (x y : List α) (h : x.length = y.length) :
    hellingerSum sqrt (enc x) (enc y) = Dense.hellingerSum sqrt x y := by
  unfold hellingerSum Dense.hellingerSum
  rw [sparseMul_enc x y h, foldl_enc (fun r d => r + sqrt d) (by intro r; simp [h0])]
  exact (foldl_zip (fun r d => r + sqrt d) (· * ·) x y 0).symm

theorem foldl_count_ne (l : List (α × α)) (r0 : Nat) :
    l.foldl (fun (r : Nat) p => if p.1 ≠ p.2 then r + 1 else r) r0
      = r0 + l.countP (fun p => p.1 ≠ p.2) := by
  induction l generalizing r0 with
  | nil => simp
  | cons p t ih =>
    rw [List.foldl_cons, ih]
    by_cases hp : p.1 = p.2
    · simp [hp]
    · simp [hp]; omega

theorem countP_zipWith_sub (x y : List α) :
    (List.zipWith (· - ·) x y).countP (· ≠ 0) = (x.zip y).countP (fun p => p.1 ≠ p.2) := by
  induction x generalizing y with
  | nil => simp
  | cons u s ih =>
    cases y with
    | nil => simp
    | cons v t =>
      simp only [List.zipWith_cons_cons, List.zip_cons_cons, List.countP_cons, ih t]
      simp [sub_eq_zero]

theorem hamming_enc (x y : List α) (h : x.length = y.length) :
    hamming (enc x) (enc y) x.length = Dense.hamming x y := by
  unfold hamming Dense.hamming
  rw [sparseDiff_enc x y h, enc, length_encFrom, countP_zipWith_sub, foldl_count_ne, Nat.zero_add]

end RingMetrics

/-! ### `abs`, `max` -/
section OrderMetrics
variable [Ring α] [LinearOrder α]

theorem absV_zero : absV (0 : α) = 0 := by simp [absV]

theorem maxV_nonneg {r v : α} (hr : 0 ≤ r) (hv : 0 ≤ v) : 0 ≤ maxV r v := by
  unfold maxV; split <;> assumption

theorem maxV_zero {r : α} (hr : 0 ≤ r) : maxV r 0 = r := by
  unfold maxV; rw [if_neg (not_lt.2 hr)]

theorem absV_eq_abs [IsStrictOrderedRing α] (v : α) : absV v = |v| := by
  unfold absV; split
  · rename_i h; rw [abs_of_neg h]
  · rename_i h; rw [abs_of_nonneg (not_lt.1 h)]

theorem maxV_eq_max (r v : α) : maxV r v = max r v := by
  unfold maxV; split
  · rename_i h; rw [max_eq_right (le_of_lt h)]
  · rename_i h; rw [max_eq_left (not_lt.1 h)]

theorem manhattan_enc (x y : List α) (h : x.length = y.length) :
    manhattan (enc x) (enc y) = Dense.manhattan x y := by
  unfold manhattan Dense.manhattan
  rw [sparseDiff_enc x y h, foldl_enc (fun r d => r + absV d) (by intro r; simp [absV_zero])]
  exact (foldl_zip (fun r d => r + absV d) (· - ·) x y 0).symm

theorem absV_nonneg [IsStrictOrderedRing α] (v : α) : 0 ≤ absV v := by
  rw [absV_eq_abs]; exact abs_nonneg v

theorem chebyshev_enc [IsStrictOrderedRing α] (x y : List α) (h : x.length = y.length) :
    chebyshev (enc x) (enc y) = Dense.chebyshev x y := by
  unfold chebyshev Dense.chebyshev
  rw [sparseDiff_enc x y h, enc,
    foldl_encFrom (fun r d => maxV r (absV d)) (fun r => 0 ≤ r)
      (fun r v hr => maxV_nonneg hr (absV_nonneg v))
      (fun r hr => by simp only [absV_zero]; exact maxV_zero hr) 0 _ 0 (le_refl 0)]
  exact (foldl_zip (fun r d => maxV r (absV d)) (· - ·) x y 0).symm

theorem powN_zero_of_pos {p : Nat} (hp : 1 ≤ p) : powN (0 : α) p = 0 := by
  cases p with
  | zero => omega
  | succ k => simp [powN]

theorem minkowskiSum_enc {p : Nat} (hp : 1 ≤ p) (x y : List α) (h : x.length = y.length) :
    minkowskiSum p (enc x) (enc y) = Dense.minkowskiSum p x y := by
  unfold minkowskiSum Dense.minkowskiSum
  rw [sparseDiff_enc x y h,
    foldl_enc (fun r d => r + powN (absV d) p) (by intro r; simp [absV_zero, powN_zero_of_pos hp])]
  exact (foldl_zip (fun r d => r + powN (absV d) p) (· - ·) x y 0).symm

end OrderMetrics

/-! ### the binary metrics: counts through the index arrays -/
section Counts
variable [Zero α]

theorem lb_inds {lo : Nat} {a : SVec α} (h : SortedFrom lo a) : ∀ i ∈ inds a, lo ≤ i :=
  (incFrom_inds h).lb

theorem inds_encFrom_cons (k : Nat) (v : α) (t : List α) :
    inds (encFrom k (v :: t)) =
      if v = 0 then inds (encFrom (k + 1) t) else k :: inds (encFrom (k + 1) t) := by
  show inds (keep k v (encFrom (k + 1) t)) = _
  unfold keep; split <;> rfl

theorem isect_count_encFrom (k : Nat) (x y : List α) (h : x.length = y.length) :
    ((inds (encFrom k x)).filter (· ∈ inds (encFrom k y))).length
      = (x.zip y).countP (fun p => p.1 ≠ 0 ∧ p.2 ≠ 0) := by
  induction x generalizing y k with
  | nil => rfl
  | cons u s ih =>
    cases y with
    | nil => simp at h
    | cons v t =>
      have hlen : s.length = t.length := by simpa using h
      have hA := lb_inds (encFrom_sorted (k + 1) s)
      have hB := lb_inds (encFrom_sorted (k + 1) t)
      have hkB : k ∉ inds (encFrom (k + 1) t) := fun hm => by have := hB k hm; omega
      -- membership in the second array, for indices beyond `k`
      have f1 : (inds (encFrom (k + 1) s)).filter (· ∈ inds (encFrom k (v :: t)))
          = (inds (encFrom (k + 1) s)).filter (· ∈ inds (encFrom (k + 1) t)) := by
        apply List.filter_congr
        intro i hi
        have := hA i hi
        rw [inds_encFrom_cons]
        split
        · rfl
        · simp only [List.mem_cons, decide_eq_decide]
          constructor
          · rintro (h | h)
            · omega
            · exact h
          · exact Or.inr
      have f2 : k ∈ inds (encFrom k (v :: t)) ↔ v ≠ 0 := by
        rw [inds_encFrom_cons]
        split
        · rename_i hv; simp [hv, hkB]
        · rename_i hv; simp [hv]
      rw [List.zip_cons_cons, List.countP_cons, ← ih (k + 1) t hlen, inds_encFrom_cons k u s]
      by_cases hu : u = 0
      · rw [if_pos hu, f1]; simp [hu]
      · rw [if_neg hu, List.filter_cons, f1]
        by_cases hv : v = 0
        · rw [if_neg (by simpa using (not_congr f2).2 (by simpa using hv))]; simp [hu, hv]
        · rw [if_pos (by simpa using f2.2 hv)]; simp [hu, hv]

theorem countP_zip_identities (x y : List α) (h : x.length = y.length) :
    x.countP (· ≠ 0) + y.countP (· ≠ 0)
        = (x.zip y).countP (fun p => p.1 ≠ 0 ∨ p.2 ≠ 0) + (x.zip y).countP (fun p => p.1 ≠ 0 ∧ p.2 ≠ 0) ∧
    (x.zip y).countP (fun p => decide (p.1 ≠ 0) != decide (p.2 ≠ 0))
        + (x.zip y).countP (fun p => p.1 ≠ 0 ∧ p.2 ≠ 0)
        = (x.zip y).countP (fun p => p.1 ≠ 0 ∨ p.2 ≠ 0) := by
  induction x generalizing y with
  | nil =>
    cases y with
    | nil => simp
    | cons _ _ => simp at h
  | cons u s ih =>
    cases y with
    | nil => simp at h
    | cons v t =>
      obtain ⟨i1, i2⟩ := ih t (by simpa using h)
      simp only [List.zip_cons_cons, List.countP_cons]
      by_cases hu : u = 0 <;> by_cases hv : v = 0 <;> simp [hu, hv] at i1 i2 ⊢ <;> omega

theorem numTrueTrue_enc (x y : List α) (h : x.length = y.length) :
    numTrueTrue (enc x) (enc y) = Dense.numTrueTrue x y := by
  unfold numTrueTrue Dense.numTrueTrue
  rw [intersectionSize_eq (incFrom_inds (enc_sorted x)) (incFrom_inds (enc_sorted y))]
  exact congrArg _ (isect_count_encFrom 0 x y h)

theorem numNonZero_enc (x y : List α) (h : x.length = y.length) :
    numNonZero (enc x) (enc y) = Dense.numNonZero x y := by
  unfold numNonZero
  rw [numTrueTrue_enc x y h]
  unfold Dense.numTrueTrue Dense.numNonZero
  rw [enc, enc, length_encFrom, length_encFrom]
  have := (countP_zip_identities x y h).1
  omega

theorem numNotEqual_enc (x y : List α) (h : x.length = y.length) :
    numNotEqual (enc x) (enc y) = Dense.numNotEqual x y := by
  unfold numNotEqual
  rw [numNonZero_enc x y h, numTrueTrue_enc x y h]
  unfold Dense.numTrueTrue Dense.numNonZero Dense.numNotEqual
  have := (countP_zip_identities x y h).2
  omega

theorem jaccard_enc (x y : List α) (h : x.length = y.length) :
    jaccard (enc x) (enc y) = Dense.jaccard x y := by
  simp only [jaccard, Dense.jaccard, numNonZero_enc x y h, numTrueTrue_enc x y h]

theorem matching_enc (x y : List α) (h : x.length = y.length) :
    matching (enc x) (enc y) x.length = Dense.matching x y := by
  simp only [matching, Dense.matching, numNotEqual_enc x y h]

theorem dice_enc (x y : List α) (h : x.length = y.length) :
    dice (enc x) (enc y) = Dense.dice x y := by
  simp only [dice, Dense.dice, numNotEqual_enc x y h, numTrueTrue_enc x y h]

theorem kulsinski_enc (x y : List α) (h : x.length = y.length) :
    kulsinski (enc x) (enc y) x.length = Dense.kulsinski x y := by
  simp only [kulsinski, Dense.kulsinski, numNotEqual_enc x y h, numTrueTrue_enc x y h]

theorem rogersTanimoto_enc (x y : List α) (h : x.length = y.length) :
    rogersTanimoto (enc x) (enc y) x.length = Dense.rogersTanimoto x y := by
  simp only [rogersTanimoto, Dense.rogersTanimoto, numNotEqual_enc x y h]

theorem sokalMichener_enc (x y : List α) (h : x.length = y.length) :
    sokalMichener (enc x) (enc y) x.length = Dense.sokalMichener x y := by
  simp only [sokalMichener, Dense.sokalMichener, numNotEqual_enc x y h]

theorem sokalSneath_enc (x y : List α) (h : x.length = y.length) :
    sokalSneath (enc x) (enc y) = Dense.sokalSneath x y := by
  simp only [sokalSneath, Dense.sokalSneath, numNotEqual_enc x y h, numTrueTrue_enc x y h]

theorem countP_vals_enc (x : List α) : ((vals (enc x)).countP (· ≠ 0)) = x.countP (· ≠ 0) := by
  have hz := enc_noZero x
  have : (vals (enc x)).countP (· ≠ 0) = (vals (enc x)).length := by
    rw [List.countP_eq_length]
    intro v hv
    obtain ⟨p, hp, rfl⟩ := List.mem_map.1 hv
    simpa using hz p hp
  rw [this, vals, List.length_map, enc, length_encFrom]

theorem russellrao_enc (x y : List α) (h : x.length = y.length) :
    russellrao (enc x) (enc y) x.length = Dense.russellrao x y := by
  unfold russellrao Dense.russellrao
  rw [countP_vals_enc, countP_vals_enc, numTrueTrue_enc x y h]
  split
  · -- identical index arrays: the dense kernel takes its "all true-true" branch
    rename_i hEq
    have htt : Dense.numTrueTrue x y = ((x.countP (· ≠ 0) : Nat) : Int) ∧
        Dense.numTrueTrue x y = ((y.countP (· ≠ 0) : Nat) : Int) := by
      rw [← numTrueTrue_enc x y h]
      unfold numTrueTrue
      rw [intersectionSize_eq (incFrom_inds (enc_sorted x)) (incFrom_inds (enc_sorted y)), ← hEq]
      have hf : (inds (enc x)).filter (· ∈ inds (enc x)) = inds (enc x) := by
        rw [List.filter_eq_self]; intro i hi; simpa using hi
      have hx : (inds (enc x)).length = x.countP (· ≠ 0) := by
        rw [inds, List.length_map, enc, length_encFrom]
      have hy : (inds (enc x)).length = y.countP (· ≠ 0) := by
        rw [hEq, inds, List.length_map, enc, length_encFrom]
      rw [hf]; exact ⟨congrArg _ hx, congrArg _ hy⟩
    rw [if_pos htt]
  · rfl

end Counts

/-! ### `dense_union` (Jensen–Shannon, symmetric KL) -/
section DenseUnion
variable [AddZeroClass α]

theorem denseUnion_cons_lt {k : Nat} {u : α} {A B : SVec α} (hB : SortedFrom (k + 1) B) :
    denseUnion ((k, u) :: A) B = keep2 u u 0 (denseUnion A B) := by
  cases B with
  | nil => rw [denseUnion]
  | cons q B =>
    obtain ⟨j, w⟩ := q
    have := hB.1
    rw [denseUnion, if_neg (by omega), if_pos (by omega)]

theorem denseUnion_lt_cons {k : Nat} {v : α} {A B : SVec α} (hA : SortedFrom (k + 1) A) :
    denseUnion A ((k, v) :: B) = keep2 v 0 v (denseUnion A B) := by
  cases A with
  | nil => rw [denseUnion]
  | cons p A =>
    obtain ⟨j, w⟩ := p
    have := hA.1
    rw [denseUnion, if_neg (by omega), if_neg (by omega)]

/-- `dense_union` on encodings returns the two dense vectors restricted to the coordinates on
which `x[i] + y[i] ≠ 0` -/
theorem denseUnion_encFrom (k : Nat) (x y : List α) (h : x.length = y.length) :
    denseUnion (encFrom k x) (encFrom k y) = (x.zip y).filter (fun p => p.1 + p.2 ≠ 0) := by
  induction x generalizing y k with
  | nil =>
    cases y with
    | nil => simp [encFrom, denseUnion]
    | cons _ _ => simp at h
  | cons u s ih =>
    cases y with
    | nil => simp at h
    | cons v t =>
      have hlen : s.length = t.length := by simpa using h
      have hA := encFrom_sorted (k + 1) s
      have hB := encFrom_sorted (k + 1) t
      show denseUnion (keep k u (encFrom (k + 1) s)) (keep k v (encFrom (k + 1) t)) = _
      rw [List.zip_cons_cons, List.filter_cons]
      unfold keep
      by_cases hu : u = 0
      · by_cases hv : v = 0
        · rw [if_pos hu, if_pos hv, ih (k + 1) t hlen]; simp [hu, hv]
        · rw [if_pos hu, if_neg hv, denseUnion_lt_cons hA, ih (k + 1) t hlen]
          subst hu; simp [keep2, hv]
      · by_cases hv : v = 0
        · rw [if_neg hu, if_pos hv, denseUnion_cons_lt hB, ih (k + 1) t hlen]
          subst hv; simp [keep2, hu]
        · rw [if_neg hu, if_neg hv, denseUnion, if_pos rfl, ih (k + 1) t hlen]
          unfold keep2; split <;> simp_all

/-- if the two vectors never cancel (`x[i] + y[i] = 0` only where both are `0`, e.g. non-negative
data), `dense_union` returns the two dense vectors restricted to the union of the supports -/
theorem denseUnion_enc_union (x y : List α) (h : x.length = y.length)
    (hnc : ∀ p ∈ x.zip y, p.1 + p.2 = 0 → p.1 = 0 ∧ p.2 = 0) :
    denseUnion (enc x) (enc y) = (x.zip y).filter (fun p => p.1 ≠ 0 ∨ p.2 ≠ 0) := by
  rw [enc, enc, denseUnion_encFrom 0 x y h]
  apply List.filter_congr
  intro p hp
  by_cases h1 : p.1 = 0 <;> by_cases h2 : p.2 = 0
  · simp [h1, h2]
  · simp [h1, h2]
  · simp [h1, h2]
  · have : p.1 + p.2 ≠ 0 := fun e => h1 (hnc p hp e).1
    simp [h1, h2, this]

end DenseUnion

end Pynn.Sparse
