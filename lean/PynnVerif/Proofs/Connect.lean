import PynnVerif.Model.Connect
import Mathlib.Data.List.Nodup
import Mathlib.Data.List.Range
import Mathlib.Data.List.Perm.Subperm
import Mathlib.Data.List.Sort
import Mathlib.Logic.Function.Iterate
/-!
Helper lemmas for C20: `rejection_sample` (specification, pigeonhole divergence,
termination over a fair stream) and reachability in the graph `connect_graph` returns.
-/
namespace Pynn.Connect
variable {σ : Type}

/-! ## `rejection_sample` -/

theorem residue_lt (i : Int) {pool : Nat} (h : 0 < pool) : residue i pool < pool := by
  unfold residue
  have h1 := Int.emod_lt_of_pos i (Int.natCast_pos.mpr h)
  have h2 := Int.emod_nonneg i (show (pool : Int) ≠ 0 by omega)
  omega

theorem residue_natCast (a pool : Nat) : residue (a : Int) pool = a % pool := by
  unfold residue
  omega

/-- A duplicate-free list of numbers below `n` has at most `n` entries (pigeonhole). -/
theorem nodup_bounded_length {l : List Nat} {n : Nat} (hn : l.Nodup) (hb : ∀ x ∈ l, x < n) :
    l.length ≤ n := by
  have h : l.Subperm (List.range n) :=
    List.subperm_of_subset hn (fun x hx => List.mem_range.mpr (hb x hx))
  simpa using h.length_le

/-- Fewer than `pool` distinct values leave some residue unused. -/
theorem exists_fresh {prev : List Nat} {pool : Nat} (hl : prev.length < pool) :
    ∃ r, r < pool ∧ r ∉ prev := by
  by_contra h
  have h' : ∀ r, r < pool → r ∈ prev := by
    intro r hr; by_contra hc; exact h ⟨r, hr, hc⟩
  have hs : (List.range pool).Subperm prev :=
    List.subperm_of_subset List.nodup_range (fun x hx => h' x (List.mem_range.mp hx))
  have := hs.length_le
  simp at this; omega

/-- What one slot's `while` loop returns: a value different from all earlier slots,
in range, having consumed at least one draw. -/
theorem drawSlot_some (next : σ → Int × σ) (pool : Nat) (prev : List Nat) :
    ∀ (fuel : Nat) (s : σ) (j : Nat) (s' : σ) (f' : Nat),
      drawSlot next pool prev fuel s = some (j, s', f') →
      j ∉ prev ∧ (0 < pool → j < pool) ∧ f' < fuel := by
  intro fuel
  induction fuel with
  | zero => intro s j s' f' h; simp [drawSlot] at h
  | succ fuel ih =>
    intro s j s' f' h
    simp only [drawSlot] at h
    split at h
    · obtain ⟨h1, h2, h3⟩ := ih _ _ _ _ h
      exact ⟨h1, h2, by omega⟩
    · rename_i hnot
      simp only [Option.some.injEq, Prod.mk.injEq] at h
      obtain ⟨rfl, _, rfl⟩ := h
      exact ⟨hnot, fun hp => residue_lt _ hp, by omega⟩

/-- Invariant of the outer loop: duplicate-free, in range, one more entry per slot. -/
theorem rejLoop_spec (next : σ → Int × σ) {pool : Nat} (hp : 0 < pool) :
    ∀ (slots : Nat) (prev : List Nat) (fuel : Nat) (s : σ) (out : List Nat) (s' : σ) (f' : Nat),
      rejLoop next pool slots prev fuel s = some (out, s', f') →
      prev.Nodup → (∀ x ∈ prev, x < pool) →
      out.Nodup ∧ (∀ x ∈ out, x < pool) ∧ out.length = prev.length + slots ∧ f' ≤ fuel := by
  intro slots
  induction slots with
  | zero =>
    intro prev fuel s out s' f' h hn hb
    simp only [rejLoop, Option.some.injEq, Prod.mk.injEq] at h
    obtain ⟨rfl, _, rfl⟩ := h
    exact ⟨hn, hb, by simp, Nat.le_refl _⟩
  | succ slots ih =>
    intro prev fuel s out s' f' h hn hb
    simp only [rejLoop] at h
    split at h
    · simp at h
    · rename_i j s1 f1 hd
      obtain ⟨hj1, hj2, hj3⟩ := drawSlot_some next pool prev fuel s j s1 f1 hd
      have hn' : (prev ++ [j]).Nodup := by
        rw [List.nodup_append]
        refine ⟨hn, List.nodup_singleton j, ?_⟩
        intro a ha b hb' hab
        simp only [List.mem_singleton] at hb'
        subst hb'; subst hab; exact hj1 ha
      have hb' : ∀ x ∈ prev ++ [j], x < pool := by
        intro x hx
        simp only [List.mem_append, List.mem_singleton] at hx
        rcases hx with hx | rfl
        · exact hb x hx
        · exact hj2 hp
      obtain ⟨h1, h2, h3, h4⟩ := ih _ _ _ _ _ _ h hn' hb'
      refine ⟨h1, h2, ?_, by omega⟩
      simp at h3; omega

/-- Specification of a returned sample, for every generator. -/
theorem rejectionSampleG_spec (next : σ → Int × σ) {nSamples pool : Nat} (hp : 0 < pool)
    (fuel : Nat) (s : σ) (out : List Nat) (s' : σ)
    (h : rejectionSampleG next nSamples pool fuel s = some (out, s')) :
    out.Nodup ∧ (∀ x ∈ out, x < pool) ∧ out.length = nSamples := by
  unfold rejectionSampleG at h
  cases hr : rejLoop next pool nSamples [] fuel s with
  | none => simp [hr] at h
  | some r =>
    obtain ⟨o, s1, f1⟩ := r
    simp only [hr, Option.map_some, Option.some.injEq, Prod.mk.injEq] at h
    obtain ⟨rfl, rfl⟩ := h
    obtain ⟨h1, h2, h3, _⟩ := rejLoop_spec next hp _ _ _ _ _ _ _ hr List.nodup_nil (by simp)
    exact ⟨h1, h2, by simpa using h3⟩

/-- Pigeonhole: more distinct samples than the pool holds can never be produced. -/
theorem rejectionSampleG_none (next : σ → Int × σ) {nSamples pool : Nat} (hp : 0 < pool)
    (hlt : pool < nSamples) (fuel : Nat) (s : σ) :
    rejectionSampleG next nSamples pool fuel s = none := by
  cases h : rejectionSampleG next nSamples pool fuel s with
  | none => rfl
  | some r =>
    obtain ⟨out, s'⟩ := r
    obtain ⟨h1, h2, h3⟩ := rejectionSampleG_spec next hp fuel s out s' h
    have := nodup_bounded_length h1 h2
    omega

/-- Fairness of a stream of draws for a pool: every residue keeps coming back. -/
def Fair (draw : Nat → Nat) (pool : Nat) : Prop :=
  ∀ r, r < pool → ∀ N, ∃ p, N ≤ p ∧ draw p % pool = r

/-- If an acceptable draw sits `d` positions ahead, the slot's loop stops at the first
acceptable position; it needs exactly `pos' - pos` draws and returns the same value for
every fuel that covers them. -/
theorem drawSlot_stream (draw : Nat → Nat) (pool : Nat) (prev : List Nat) :
    ∀ (d pos : Nat), draw (pos + d) % pool ∉ prev →
      ∃ j pos', pos < pos' ∧ ∀ fuel, pos' - pos ≤ fuel →
        drawSlot (streamNext draw) pool prev fuel pos = some (j, pos', fuel - (pos' - pos)) := by
  intro d
  induction d with
  | zero =>
    intro pos h
    refine ⟨draw pos % pool, pos + 1, by omega, ?_⟩
    intro fuel hf
    obtain ⟨f, rfl⟩ : ∃ f, fuel = f + 1 := ⟨fuel - 1, by omega⟩
    simp only [drawSlot, streamNext, residue_natCast]
    rw [if_neg (by simpa using h)]
    congr 3; omega
  | succ d ih =>
    intro pos h
    by_cases hc : draw pos % pool ∈ prev
    · obtain ⟨j, pos', hlt, hall⟩ := ih (pos + 1) (by rwa [show pos + 1 + d = pos + (d + 1) by omega])
      refine ⟨j, pos', by omega, ?_⟩
      intro fuel hf
      obtain ⟨f, rfl⟩ : ∃ f, fuel = f + 1 := ⟨fuel - 1, by omega⟩
      simp only [drawSlot, streamNext, residue_natCast]
      rw [if_pos hc]
      rw [hall f (by omega)]
      congr 3; omega
    · refine ⟨draw pos % pool, pos + 1, by omega, ?_⟩
      intro fuel hf
      obtain ⟨f, rfl⟩ : ∃ f, fuel = f + 1 := ⟨fuel - 1, by omega⟩
      simp only [drawSlot, streamNext, residue_natCast]
      rw [if_neg hc]
      congr 3; omega

/-- Over a fair stream the outer loop finishes: it consumes exactly `pos' - pos` draws
and returns the same samples for every fuel that covers them. -/
theorem rejLoop_stream (draw : Nat → Nat) {pool : Nat} (hfair : Fair draw pool) :
    ∀ (slots : Nat) (prev : List Nat) (pos : Nat),
      prev.length + slots ≤ pool →
      ∃ out pos', pos ≤ pos' ∧ ∀ fuel, pos' - pos ≤ fuel →
        rejLoop (streamNext draw) pool slots prev fuel pos = some (out, pos', fuel - (pos' - pos)) := by
  intro slots
  induction slots with
  | zero =>
    intro prev pos _
    exact ⟨prev, pos, Nat.le_refl _, fun fuel _ => by simp [rejLoop]⟩
  | succ slots ih =>
    intro prev pos hlen
    obtain ⟨r, hr, hfresh⟩ := exists_fresh (prev := prev) (pool := pool) (by omega)
    obtain ⟨p, hp, hpr⟩ := hfair r hr pos
    obtain ⟨j, pos1, hlt1, hslot⟩ := drawSlot_stream draw pool prev (p - pos) pos
      (by rw [show pos + (p - pos) = p by omega, hpr]; exact hfresh)
    obtain ⟨out, pos2, hle2, hrest⟩ := ih (prev ++ [j]) pos1 (by simp; omega)
    refine ⟨out, pos2, by omega, ?_⟩
    intro fuel hf
    simp only [rejLoop]
    rw [hslot fuel (by omega)]
    simp only
    rw [hrest (fuel - (pos1 - pos)) (by omega)]
    congr 3; omega

/-! ## Reachability -/

section Graph
variable {V : Type}

/-- reflexive-transitive closure of an edge relation (own definition) -/
inductive Reachable (E : V → V → Prop) : V → V → Prop
  | refl (a : V) : Reachable E a a
  | step {a b c : V} : Reachable E a b → E b c → Reachable E a c

theorem Reachable.trans {E : V → V → Prop} {a b c : V} (h1 : Reachable E a b) (h2 : Reachable E b c) :
    Reachable E a c := by
  induction h2 with
  | refl => exact h1
  | step _ e ih => exact .step ih e

theorem Reachable.single {E : V → V → Prop} {a b : V} (e : E a b) : Reachable E a b :=
  .step (.refl a) e

theorem Reachable.mono {E E' : V → V → Prop} (h : ∀ a b, E a b → E' a b) {a b : V}
    (r : Reachable E a b) : Reachable E' a b := by
  induction r with
  | refl => exact .refl _
  | step _ e ih => exact .step ih (h _ _ e)

theorem Reachable.symm {E : V → V → Prop} (hs : ∀ a b, E a b → E b a) {a b : V}
    (r : Reachable E a b) : Reachable E b a := by
  induction r with
  | refl => exact .refl _
  | step _ e ih => exact (Reachable.single (hs _ _ e)).trans ih

/-- the undirected reading of a (possibly directed) input graph: what
`scipy.sparse.csgraph.connected_components(graph)` (default `connection='weak'`) walks -/
def Sym (G : V → V → Prop) (a b : V) : Prop := G a b ∨ G b a

/-- two labels are adjacent when some edge joins a vertex of the one to a vertex of the other -/
def LabelAdj (E : V → V → Prop) (comp : V → Nat) (c1 c2 : Nat) : Prop :=
  ∃ a b, comp a = c1 ∧ comp b = c2 ∧ E a b

/-- Core lemma: if label classes are connected inside the input graph, the output
contains the input and is symmetric, and the *label graph* of the output is connected,
then the output is connected. -/
theorem connected_of_label_connected (G E : V → V → Prop) (comp : V → Nat)
    (hcomp : ∀ u v, comp u = comp v → Reachable (Sym G) u v)
    (hsub : ∀ a b, G a b → E a b) (hsym : ∀ a b, E a b → E b a)
    (hlab : ∀ u v, Reachable (LabelAdj E comp) (comp u) (comp v)) :
    ∀ u v, Reachable E u v := by
  have hin : ∀ u v, comp u = comp v → Reachable E u v := fun u v h =>
    (hcomp u v h).mono (fun a b hab => hab.elim (hsub a b) (fun h' => hsym _ _ (hsub b a h')))
  intro u v
  have key : ∀ c, Reachable (LabelAdj E comp) (comp u) c → ∀ w, comp w = c → Reachable E u w := by
    intro c hc
    induction hc with
    | refl => intro w hw; exact hin u w hw.symm
    | step _ e ih =>
      intro w hw
      obtain ⟨a, b, ha, hb, hab⟩ := e
      exact ((ih a ha).step hab).trans (hin b w (by rw [hb, hw]))
  exact key (comp v) (hlab u v) v rfl

end Graph


/-! ## `connect_graph`'s edge insertion, literally

`result = graph.tolil(); for i, j, d in new_edges: result[i, j] = d; result[j, i] = d`.
A sparse matrix is a total function into the weights; a position is an edge iff its value
is not the zero `z` (lil / csr keep no zeros, and `csgraph` ignores explicit ones). -/

section Matrix
variable {V W : Type} [DecidableEq V]

/-- `result[i, j] = d` -/
def assign (M : V → V → W) (i j : V) (d : W) : V → V → W :=
  fun a b => if a = i ∧ b = j then d else M a b

/-- the insertion loop over `new_edges` -/
def addEdges (M : V → V → W) : List (V × V × W) → V → V → W
  | [] => M
  | (i, j, d) :: rest => addEdges (assign (assign M i j d) j i d) rest

def IsEdge (z : W) (M : V → V → W) (a b : V) : Prop := M a b ≠ z

theorem addEdges_same_label (comp : V → Nat) (new : List (V × V × W))
    (hnew : ∀ e ∈ new, comp e.1 ≠ comp e.2.1) :
    ∀ (M : V → V → W) (a b : V), comp a = comp b → addEdges M new a b = M a b := by
  induction new with
  | nil => intro M a b _; rfl
  | cons e rest ih =>
    intro M a b hab
    obtain ⟨i, j, d⟩ := e
    have hij : comp i ≠ comp j := hnew (i, j, d) (by simp)
    rw [addEdges, ih (fun e he => hnew e (by simp [he])) _ a b hab]
    unfold assign
    have h1 : ¬ (a = j ∧ b = i) := by rintro ⟨rfl, rfl⟩; exact hij hab.symm
    have h2 : ¬ (a = i ∧ b = j) := by rintro ⟨rfl, rfl⟩; exact hij hab
    rw [if_neg h1, if_neg h2]

theorem addEdges_symm (new : List (V × V × W)) :
    ∀ (M : V → V → W), (∀ a b, M a b = M b a) → ∀ a b, addEdges M new a b = addEdges M new b a := by
  induction new with
  | nil => intro M h a b; exact h a b
  | cons e rest ih =>
    intro M h a b
    obtain ⟨i, j, d⟩ := e
    rw [addEdges]
    refine ih _ ?_ a b
    intro a b
    unfold assign
    by_cases h1 : a = j ∧ b = i
    · obtain ⟨rfl, rfl⟩ := h1
      by_cases h2 : b = a <;> simp [h2]
    · by_cases h2 : a = i ∧ b = j
      · obtain ⟨rfl, rfl⟩ := h2
        by_cases h3 : b = a <;> simp [h3]
      · have h3 : ¬ (b = j ∧ a = i) := fun ⟨x, y⟩ => h2 ⟨y, x⟩
        have h4 : ¬ (b = i ∧ a = j) := fun ⟨x, y⟩ => h1 ⟨y, x⟩
        rw [if_neg h1, if_neg h2, if_neg h3, if_neg h4]; exact h a b

theorem addEdges_keeps_nonzero (z : W) (new : List (V × V × W)) (hnz : ∀ e ∈ new, e.2.2 ≠ z) :
    ∀ (M : V → V → W) (a b : V), M a b ≠ z → addEdges M new a b ≠ z := by
  induction new with
  | nil => intro M a b h; exact h
  | cons e rest ih =>
    intro M a b h
    obtain ⟨i, j, d⟩ := e
    have hd : d ≠ z := hnz (i, j, d) (by simp)
    rw [addEdges]
    refine ih (fun e he => hnz e (by simp [he])) _ a b ?_
    unfold assign
    split
    · exact hd
    · split
      · exact hd
      · exact h

theorem addEdges_written (z : W) (new : List (V × V × W)) (hnz : ∀ e ∈ new, e.2.2 ≠ z) :
    ∀ (M : V → V → W), ∀ e ∈ new, addEdges M new e.1 e.2.1 ≠ z := by
  induction new with
  | nil => intro M e he; simp at he
  | cons e0 rest ih =>
    intro M e he
    obtain ⟨i, j, d⟩ := e0
    have hd : d ≠ z := hnz (i, j, d) (by simp)
    have hrest : ∀ e ∈ rest, e.2.2 ≠ z := fun e he => hnz e (by simp [he])
    rw [addEdges]
    simp only [List.mem_cons] at he
    rcases he with rfl | he
    · refine addEdges_keeps_nonzero z rest hrest _ i j ?_
      unfold assign
      split
      · exact hd
      · rw [if_pos ⟨rfl, rfl⟩]; exact hd
    · exact ih hrest _ e he

theorem addEdges_value (new : List (V × V × W)) :
    ∀ (M : V → V → W) (a b : V), addEdges M new a b = M a b ∨
      ∃ e ∈ new, addEdges M new a b = e.2.2 ∧ ((e.1 = a ∧ e.2.1 = b) ∨ (e.1 = b ∧ e.2.1 = a)) := by
  induction new with
  | nil => intro M a b; exact Or.inl rfl
  | cons e0 rest ih =>
    intro M a b
    obtain ⟨i, j, d⟩ := e0
    rw [addEdges]
    rcases ih (assign (assign M i j d) j i d) a b with h | ⟨e, he, h1, h2⟩
    · rw [h]
      unfold assign
      by_cases h1 : a = j ∧ b = i
      · rw [if_pos h1]
        exact Or.inr ⟨(i, j, d), by simp, rfl, Or.inr ⟨h1.2.symm, h1.1.symm⟩⟩
      · rw [if_neg h1]
        by_cases h2 : a = i ∧ b = j
        · rw [if_pos h2]
          exact Or.inr ⟨(i, j, d), by simp, rfl, Or.inl ⟨h2.1.symm, h2.2.symm⟩⟩
        · rw [if_neg h2]; exact Or.inl rfl
    · exact Or.inr ⟨e, by simp [he], h1, h2⟩

end Matrix

/-! ## The alternating loop, exact-nearest-neighbour abstraction -/

theorem mem_insertU (x y : Nat) (l : List Nat) : y ∈ insertU x l ↔ y = x ∨ y ∈ l := by
  induction l with
  | nil => simp [insertU]
  | cons z zs ih =>
    simp only [insertU]
    split
    · simp
    · split
      · subst_vars; simp
      · simp only [List.mem_cons, ih]; tauto

theorem sorted_insertU (x : Nat) (l : List Nat) (h : l.Pairwise (· < ·)) :
    (insertU x l).Pairwise (· < ·) := by
  induction l with
  | nil => simp [insertU]
  | cons z zs ih =>
    simp only [insertU]
    rw [List.pairwise_cons] at h
    split
    · rename_i hxz
      refine List.pairwise_cons.mpr ⟨?_, List.pairwise_cons.mpr h⟩
      intro a ha
      simp only [List.mem_cons] at ha
      rcases ha with rfl | ha
      · exact hxz
      · exact Nat.lt_trans hxz (h.1 a ha)
    · split
      · exact List.pairwise_cons.mpr h
      · rename_i h1 h2
        refine List.pairwise_cons.mpr ⟨?_, ih h.2⟩
        intro a ha
        rw [mem_insertU] at ha
        rcases ha with rfl | ha
        · omega
        · exact h.1 a ha

theorem mem_uniq (y : Nat) (l : List Nat) : y ∈ uniq l ↔ y ∈ l := by
  induction l with
  | nil => simp [uniq]
  | cons z zs ih =>
    have : uniq (z :: zs) = insertU z (uniq zs) := rfl
    rw [this, mem_insertU, ih]; simp

theorem sorted_uniq (l : List Nat) : (uniq l).Pairwise (· < ·) := by
  induction l with
  | nil => simp [uniq]
  | cons z zs ih =>
    have : uniq (z :: zs) = insertU z (uniq zs) := rfl
    rw [this]; exact sorted_insertU z _ ih

theorem sorted_ext {l1 l2 : List Nat} (h1 : l1.Pairwise (· < ·)) (h2 : l2.Pairwise (· < ·))
    (h : ∀ a, a ∈ l1 ↔ a ∈ l2) : l1 = l2 := List.Pairwise.eq_of_mem_iff h1 h2 h

/-- exact nearest neighbours without ties between two components `A` (side 0) and `B` (side 1) -/
structure ExactNN (nn : Bool → Nat → Nat) (d : Nat → Nat → Nat) (A B : Nat → Prop) : Prop where
  closed0 : ∀ a, A a → B (nn false a)
  closed1 : ∀ b, B b → A (nn true b)
  nearest0 : ∀ a b, A a → B b → b ≠ nn false a → d a (nn false a) < d a b
  nearest1 : ∀ b a, B b → A a → a ≠ nn true b → d (nn true b) b < d a b

section Alt
variable {nn : Bool → Nat → Nat} {d : Nat → Nat → Nat} {A B : Nat → Prop}

def dom (A B : Nat → Prop) (side : Bool) (x : Nat) : Prop := if side then B x else A x
def dist (d : Nat → Nat → Nat) (side : Bool) (x y : Nat) : Nat := if side then d y x else d x y
def hgt (nn : Bool → Nat → Nat) (d : Nat → Nat → Nat) (side : Bool) (x : Nat) : Nat := dist d side x (nn side x)
def Settled (nn : Bool → Nat → Nat) (side : Bool) (x : Nat) : Prop := nn (!side) (nn side x) = x

theorem ExactNN.closed (h : ExactNN nn d A B) (side : Bool) (x : Nat) (hx : dom A B side x) :
    dom A B (!side) (nn side x) := by
  cases side
  · simpa [dom] using h.closed0 x (by simpa [dom] using hx)
  · simpa [dom] using h.closed1 x (by simpa [dom] using hx)

theorem ExactNN.nearest (h : ExactNN nn d A B) (side : Bool) (x y : Nat) (hx : dom A B side x)
    (hy : dom A B (!side) y) (hne : y ≠ nn side x) : dist d side x (nn side x) < dist d side x y := by
  cases side
  · simpa [dist] using h.nearest0 x y (by simpa [dom] using hx) (by simpa [dom] using hy) hne
  · simpa [dist] using h.nearest1 x y (by simpa [dom] using hx) (by simpa [dom] using hy) hne

theorem dist_symm (d : Nat → Nat → Nat) (side : Bool) (x y : Nat) : dist d side x y = dist d (!side) y x := by
  cases side <;> simp [dist]

theorem ExactNN.descends (h : ExactNN nn d A B) (side : Bool) (x : Nat) (hx : dom A B side x)
    (hns : ¬ Settled nn side x) : hgt nn d (!side) (nn side x) < hgt nn d side x := by
  have hy := h.closed side x hx
  have := h.nearest (!side) (nn side x) x hy (by simpa using hx) (fun e => hns e.symm)
  unfold hgt
  rw [dist_symm d side x (nn side x)]
  exact this

theorem settled_next (side : Bool) (x : Nat) (hs : Settled nn side x) : Settled nn (!side) (nn side x) := by
  unfold Settled at *
  rw [Bool.not_not, hs]

def AltState.q (st : AltState) : List Nat := if st.side then st.idx1 else st.idx0
def AltState.o (st : AltState) : List Nat := if st.side then st.idx0 else st.idx1
def AltState.chq (st : AltState) : Bool := if st.side then st.ch1 else st.ch0
def AltState.cho (st : AltState) : Bool := if st.side then st.ch0 else st.ch1

theorem altStep_spec (nn : Bool → Nat → Nat) (st : AltState) :
    (altStep nn st).side = !st.side ∧
    (altStep nn st).q = uniq (st.q.map (nn st.side)) ∧
    (altStep nn st).o = st.q ∧
    (altStep nn st).cho = st.chq ∧
    (altStep nn st).chq = (if st.o.length = (altStep nn st).q.length then decide (st.o ≠ (altStep nn st).q) else st.cho) := by
  cases hs : st.side <;> simp [altStep, AltState.q, AltState.o, AltState.chq, AltState.cho, hs]

theorem flags_eq (st : AltState) : (st.ch0 || st.ch1) = (st.chq || st.cho) := by
  cases hs : st.side <;> simp [AltState.chq, AltState.cho, hs, Bool.or_comm]

end Alt

section Main
variable {nn : Bool → Nat → Nat} {d : Nat → Nat → Nat} {A B : Nat → Prop}

/-- the state after `t` iterations of the loop body -/
abbrev seq (nn : Bool → Nat → Nat) (s0 : AltState) (t : Nat) : AltState := (altStep nn)^[t] s0

theorem seq_succ (nn : Bool → Nat → Nat) (s0 : AltState) (t : Nat) :
    seq nn s0 (t + 1) = altStep nn (seq nn s0 t) := Function.iterate_succ_apply' _ _ _

theorem mem_q_succ (nn : Bool → Nat → Nat) (s0 : AltState) (t z : Nat) :
    z ∈ (seq nn s0 (t + 1)).q ↔ ∃ x ∈ (seq nn s0 t).q, nn (seq nn s0 t).side x = z := by
  rw [seq_succ, (altStep_spec nn (seq nn s0 t)).2.1, mem_uniq, List.mem_map]

theorem side_succ (nn : Bool → Nat → Nat) (s0 : AltState) (t : Nat) :
    (seq nn s0 (t + 1)).side = !(seq nn s0 t).side := by
  rw [seq_succ, (altStep_spec nn (seq nn s0 t)).1]

theorem alt_inv (h : ExactNN nn d A B) (s0 : AltState) (H : Nat)
    (hdom : ∀ x ∈ s0.q, dom A B s0.side x) (hH : ∀ x ∈ s0.q, hgt nn d s0.side x ≤ H) :
    ∀ t, ∀ x ∈ (seq nn s0 t).q, dom A B (seq nn s0 t).side x ∧
      (Settled nn (seq nn s0 t).side x ∨ hgt nn d (seq nn s0 t).side x + t ≤ H) := by
  intro t
  induction t with
  | zero => intro x hx; exact ⟨hdom x hx, Or.inr (hH x hx)⟩
  | succ t ih =>
    intro z hz
    obtain ⟨x, hx, rfl⟩ := (mem_q_succ nn s0 t z).mp hz
    obtain ⟨hd, hs⟩ := ih x hx
    rw [side_succ]
    refine ⟨h.closed _ x hd, ?_⟩
    rcases hs with hs | hs
    · exact Or.inl (settled_next _ x hs)
    · by_cases hset : Settled nn (seq nn s0 t).side x
      · exact Or.inl (settled_next _ x hset)
      · have := h.descends _ x hd hset
        exact Or.inr (by omega)

theorem alt_period (h : ExactNN nn d A B) (s0 : AltState) (H : Nat)
    (hdom : ∀ x ∈ s0.q, dom A B s0.side x) (hH : ∀ x ∈ s0.q, hgt nn d s0.side x ≤ H) :
    ∀ t, H < t → (seq nn s0 (t + 2)).q = (seq nn s0 t).q := by
  intro t ht
  have hsorted : ∀ u, (seq nn s0 (u + 1)).q.Pairwise (· < ·) := by
    intro u; rw [seq_succ, (altStep_spec nn (seq nn s0 u)).2.1]; exact sorted_uniq _
  obtain ⟨t', rfl⟩ : ∃ t', t = t' + 1 := ⟨t - 1, by omega⟩
  refine sorted_ext (hsorted _) (hsorted _) ?_
  intro z
  have hall : ∀ x ∈ (seq nn s0 (t' + 1)).q, Settled nn (seq nn s0 (t' + 1)).side x := by
    intro x hx
    rcases (alt_inv h s0 H hdom hH (t' + 1) x hx).2 with hs | hs
    · exact hs
    · omega
  rw [mem_q_succ, side_succ]
  constructor
  · rintro ⟨y, hy, rfl⟩
    obtain ⟨x, hx, rfl⟩ := (mem_q_succ nn s0 (t' + 1) y).mp hy
    rw [hall x hx]; exact hx
  · intro hz
    exact ⟨nn (seq nn s0 (t' + 1)).side z, (mem_q_succ nn s0 (t' + 1) _).mpr ⟨z, hz, rfl⟩, hall z hz⟩

theorem alt_chq_false (h : ExactNN nn d A B) (s0 : AltState) (H : Nat)
    (hdom : ∀ x ∈ s0.q, dom A B s0.side x) (hH : ∀ x ∈ s0.q, hgt nn d s0.side x ≤ H) :
    ∀ t, H < t → (seq nn s0 (t + 2)).chq = false := by
  intro t ht
  have hp := alt_period h s0 H hdom hH t ht
  have ho : (seq nn s0 (t + 1)).o = (seq nn s0 t).q := by
    rw [seq_succ, (altStep_spec nn (seq nn s0 t)).2.2.1]
  have hc := (altStep_spec nn (seq nn s0 (t + 1))).2.2.2.2
  rw [← seq_succ] at hc
  rw [hc, ho, hp]
  simp

theorem altLoop_of_seq (nn : Bool → Nat → Nat) :
    ∀ (u : Nat) (st : AltState), ((seq nn st u).ch0 || (seq nn st u).ch1) = false →
      ∃ st', altLoop nn u st = some st' := by
  intro u
  induction u with
  | zero => intro st hf; exact ⟨st, by simp only [seq, Function.iterate_zero, id] at hf; simp [altLoop, hf]⟩
  | succ u ih =>
    intro st hf
    by_cases hc : (st.ch0 || st.ch1) = true
    · obtain ⟨st', hst'⟩ := ih (altStep nn st) (by simpa [seq, Function.iterate_succ_apply] using hf)
      exact ⟨st', by simp [altLoop, hc, hst']⟩
    · exact ⟨st, by simp [altLoop, hc]⟩

theorem exists_bound (f : Nat → Nat) (l : List Nat) : ∃ H, ∀ x ∈ l, f x ≤ H := by
  induction l with
  | nil => exact ⟨0, by simp⟩
  | cons a l ih =>
    obtain ⟨H, hH⟩ := ih
    refine ⟨max (f a) H, ?_⟩
    intro x hx
    simp only [List.mem_cons] at hx
    rcases hx with rfl | hx
    · exact Nat.le_max_left _ _
    · exact Nat.le_trans (hH x hx) (Nat.le_max_right _ _)

/-- The loop exits from every state whose query points lie in their component. -/
theorem altLoop_terminates (h : ExactNN nn d A B) (s0 : AltState)
    (hdom : ∀ x ∈ s0.q, dom A B s0.side x) : ∃ fuel st', altLoop nn fuel s0 = some st' := by
  obtain ⟨H, hH⟩ := exists_bound (hgt nn d s0.side) s0.q
  refine ⟨H + 4, altLoop_of_seq nn (H + 4) s0 ?_⟩
  rw [flags_eq]
  have h1 := alt_chq_false h s0 H hdom hH (H + 2) (by omega)
  have h2 := alt_chq_false h s0 H hdom hH (H + 1) (by omega)
  have h3 : (seq nn s0 (H + 1 + 2 + 1)).cho = (seq nn s0 (H + 1 + 2)).chq := by
    rw [seq_succ, (altStep_spec nn _).2.2.2.1]
  rw [show H + 4 = H + 2 + 2 by omega, h1]
  rw [show H + 2 + 2 = H + 1 + 2 + 1 by omega, h3, h2]
  rfl

end Main

end Pynn.Connect
