import PynnVerif.Proofs.Heap

/-! # Order statistics of a row never get worse under pushes

For every threshold `t`, the number of entries with priority `≤ t` never
decreases under a push (accepted or not); equivalently every order statistic
of the row is non-increasing along any push sequence. -/
namespace Pynn
variable {P : Type} [LinearOrder P]

/-- Replacing the root by an entry of strictly smaller priority cannot decrease the
number of entries within a threshold. -/
theorem count_set_root_le (h : Row P) (e : Entry P) (t : P) (hk : 0 < h.size)
    (hlt : e.prio < h[0].prio) :
    (h.toList.filter (fun e => e.prio ≤ t)).length ≤
      ((h.setIfInBounds 0 e).toList.filter (fun e => e.prio ≤ t)).length := by
  rcases h with ⟨_ | ⟨r, rest⟩⟩
  · simp at hk
  · simp only [Array.toList_setIfInBounds, List.set_cons_zero]
    have hlt' : e.prio < r.prio := by simpa using hlt
    by_cases hr : r.prio ≤ t
    · have he : e.prio ≤ t := le_trans (le_of_lt hlt') hr
      rw [List.filter_cons_of_pos (by simpa using hr), List.filter_cons_of_pos (by simpa using he)]
      exact Nat.le_refl _
    · rw [List.filter_cons_of_neg (by simpa using hr)]
      exact ((List.sublist_cons_self e rest).filter _).length_le

set_option linter.unusedVariables false in
/-- One push never decreases the number of entries within any threshold `t`. -/
theorem push_count_le (c : Bool) (h : Row P) (hh : IsHeap h) (p : P) (n : Int) (f : Bool)
    (t : P) :
    (h.toList.filter (fun e => e.prio ≤ t)).length ≤
      ((push c h p n f).1.toList.filter (fun e => e.prio ≤ t)).length := by
  by_cases hacc : (push c h p n f).2 = true
  · have hperm := push_perm c h p n f hacc
    obtain ⟨hk, hlt, _⟩ := (push_accept_iff c h p n f).mp hacc
    have hl := (Array.perm_iff_toList_perm.mp hperm).filter (fun e => e.prio ≤ t)
    rw [hl.length_eq]
    exact count_set_root_le h ⟨p, n, f⟩ t hk hlt
  · have hrej : (push c h p n f).2 = false := by simpa using hacc
    rw [push_reject c h p n f hrej]
    exact Nat.le_refl _

/-- Any sequence of pushes never decreases the number of entries within any threshold. -/
theorem pushes_count_le (c : Bool) (h : Row P) (hh : IsHeap h) (ops : List (P × Int × Bool))
    (t : P) :
    (h.toList.filter (·.prio ≤ t)).length ≤
      ((ops.foldl (fun h o => (push c h o.1 o.2.1 o.2.2).1) h).toList.filter
        (·.prio ≤ t)).length := by
  induction ops generalizing h with
  | nil => exact Nat.le_refl _
  | cons o ops ih =>
    rw [List.foldl_cons]
    exact Nat.le_trans (push_count_le c h hh o.1 o.2.1 o.2.2 t)
      (ih _ (push_heap c h o.1 o.2.1 o.2.2 hh))

end Pynn
