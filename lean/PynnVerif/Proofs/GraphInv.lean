import PynnVerif.Model.Descent
import PynnVerif.Proofs.Heap

/-! # The well-formedness invariant of the neighbour-graph heap (shared definition) -/
namespace Pynn
variable {P : Type} [LinearOrder P]

/-- Invariant of the graph heap during NN-descent over `n` points with `k` slots per row. -/
structure GraphInv (top : P) (n k : Nat) (dist : Nat → Nat → P) (g : Graph P) : Prop where
  size : g.size = n
  rowSize : ∀ r (h : r < g.size), g[r].size = k
  heap : ∀ r (h : r < g.size), IsHeap g[r]
  nodup : ∀ r (h : r < g.size), ((g[r].toList.filter (fun e => 0 ≤ e.idx)).map (·.idx)).Nodup
  range : ∀ r (h : r < g.size), ∀ e ∈ g[r],
            (e.idx = -1 ∧ e.prio = top) ∨ (0 ≤ e.idx ∧ e.idx < (n : Int) ∧ e.prio < top)
  truth : ∀ r (h : r < g.size), ∀ e ∈ g[r], 0 ≤ e.idx → e.prio = dist r e.idx.toNat

/-- number of entries of a row within threshold `t` (order statistics: the `j`-th smallest
priority is `≤ t` iff this count is `> j`) -/
def countLe (row : Row P) (t : P) : Nat := (row.toList.filter (fun e => e.prio ≤ t)).length

/-- an update list is truthful for `dist` -/
def Truthful (dist : Nat → Nat → P) (ups : List (Upd P)) : Prop := ∀ u ∈ ups, u.d = dist u.p u.q

/-- the offers row `r` receives from an update list, in order: `(d, q)` for `p = r`, then `(d, p)` for `q = r` -/
def offersFor (r : Nat) (ups : List (Upd P)) : List (P × Int) :=
  ups.flatMap (fun u => (if u.p = r then [(u.d, (u.q : Int))] else []) ++
                        (if u.q = r then [(u.d, (u.p : Int))] else []))

/-- feed a row with a list of offers through `checked_flagged_heap_push(…, 1)` -/
def feed (row : Row P) (offers : List (P × Int)) : Row P :=
  offers.foldl (fun h o => (pushFlagged h o.1 o.2 true).1) row

end Pynn
