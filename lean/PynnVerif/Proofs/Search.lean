import PynnVerif.Model.Search
import PynnVerif.Proofs.TopK
import PynnVerif.Proofs.HeapSort

/-! # Lemmas about the search model (`Model/Search.lean`) -/
namespace Pynn
variable {P : Type} [LinearOrder P]

/-! ## The visited table is a set -/

theorem visited_mark (vis : Array Bool) (c x : Nat) :
    visited (mark vis c) x = true ↔ (x = c ∧ c < vis.size) ∨ visited vis x = true := by
  unfold visited mark
  rw [Array.getElem?_setIfInBounds]
  by_cases h : c = x
  · subst h
    by_cases hc : c < vis.size
    · simp [hc]
    · simp [hc]
  · simp [h]
    intro h'; exact absurd h'.symm h

@[simp] theorem mark_size (vis : Array Bool) (c : Nat) : (mark vis c).size = vis.size := by
  simp [mark]

/-- number of vertices not yet visited -/
def unvis (vis : Array Bool) : Nat := vis.count false

theorem unvis_mark_le (vis : Array Bool) (c : Nat) : unvis (mark vis c) ≤ unvis vis := by
  unfold unvis mark
  by_cases hc : c < vis.size
  · rw [Array.setIfInBounds, dif_pos hc, Array.count_set hc]
    simp
  · rw [Array.setIfInBounds, dif_neg hc]
    exact Nat.le_refl _

theorem unvis_mark_lt (vis : Array Bool) (c : Nat) (hc : c < vis.size) (hv : visited vis c = false) :
    unvis (mark vis c) + 1 = unvis vis := by
  unfold unvis mark
  have hget : vis[c] = false := by
    unfold visited at hv
    rw [Array.getElem?_eq_getElem hc] at hv
    simpa using hv
  rw [Array.setIfInBounds, dif_pos hc, Array.count_set hc]
  have hpos : 0 < vis.count false := by
    have := Array.boole_getElem_le_count (xs := vis) (a := false) hc
    rw [hget] at this
    exact this
  rw [hget]
  have h1 : ((false : Bool) == false) = true := rfl
  have h2 : ((true : Bool) == false) = false := rfl
  simp only [h1, h2, if_true, Bool.false_eq_true, if_false]
  omega

/-! ## `popMin` -/

omit [LinearOrder P] in
theorem popMin_perm [LT P] [DecidableLT P] (l : List (P × Nat)) (x : P × Nat) (rest : List (P × Nat))
    (h : popMin l = some (x, rest)) : l.Perm (x :: rest) := by
  induction l generalizing x rest with
  | nil => simp [popMin] at h
  | cons y ys ih =>
    unfold popMin at h
    cases hp : popMin ys with
    | none =>
      rw [hp] at h
      have hys : ys = [] := by
        cases ys with
        | nil => rfl
        | cons z zs =>
          unfold popMin at hp
          split at hp <;> [skip; split at hp] <;> simp at hp
      simp at h
      obtain ⟨rfl, rfl⟩ := h
      rw [hys]
    | some mr =>
      obtain ⟨m, r⟩ := mr
      rw [hp] at h
      simp only at h
      have ihp := ih m r hp
      split at h
      · simp at h
        obtain ⟨rfl, rfl⟩ := h
        exact (List.Perm.cons y ihp).trans (List.Perm.swap _ _ _)
      · simp at h
        obtain ⟨rfl, rfl⟩ := h
        exact List.Perm.refl _

theorem popMin_length (l : List (P × Nat)) (x : P × Nat) (rest : List (P × Nat))
    (h : popMin l = some (x, rest)) : rest.length + 1 = l.length := by
  have := (popMin_perm l x rest h).length_eq
  simp at this
  omega

theorem popMin_none (l : List (P × Nat)) (h : popMin l = none) : l = [] := by
  cases l with
  | nil => rfl
  | cons z zs =>
    unfold popMin at h
    split at h <;> [skip; split at h] <;> simp at h

theorem seedLt_iff (a b : P × Nat) :
    seedLt a b = true ↔ a.1 < b.1 ∨ (a.1 = b.1 ∧ a.2 < b.2) := by
  unfold seedLt
  simp only [Bool.or_eq_true, Bool.and_eq_true, decide_eq_true_eq, Bool.not_eq_true',
    decide_eq_false_iff_not]
  constructor
  · rintro (h | ⟨h1, h2⟩)
    · exact Or.inl h
    · rcases lt_trichotomy a.1 b.1 with h | h | h
      · exact Or.inl h
      · exact Or.inr ⟨h, h2⟩
      · exact absurd h h1
  · rintro (h | ⟨h1, h2⟩)
    · exact Or.inl h
    · exact Or.inr ⟨by rw [h1]; exact lt_irrefl _, h2⟩

theorem seedLt_asymm (a b : P × Nat) (h : seedLt a b = true) : seedLt b a = false := by
  rw [Bool.eq_false_iff]
  intro h'
  rw [seedLt_iff] at h h'
  rcases h with h | ⟨h1, h2⟩ <;> rcases h' with h' | ⟨h1', h2'⟩
  · exact lt_asymm h h'
  · rw [h1'] at h; exact lt_irrefl _ h
  · rw [h1] at h'; exact lt_irrefl _ h'
  · omega

/-- negative transitivity: `c ≤ b`, `b ≤ a` give `c ≤ a` for the seed order -/
theorem seedLt_neg_trans (a b c : P × Nat) (h1 : seedLt a b = false) (h2 : seedLt b c = false) :
    seedLt a c = false := by
  rw [Bool.eq_false_iff, ne_eq, seedLt_iff] at *
  intro h
  apply h1
  rcases lt_trichotomy a.1 b.1 with hab | hab | hab
  · exact Or.inl hab
  · right
    refine ⟨hab, ?_⟩
    rcases h with h | ⟨h, h'⟩
    · exact absurd (Or.inl (hab ▸ h)) h2
    · have hbc : b.1 = c.1 := hab ▸ h
      have : ¬ b.2 < c.2 := fun hlt => h2 (Or.inr ⟨hbc, hlt⟩)
      omega
  · exfalso
    apply h2
    rcases h with h | ⟨h, _⟩
    · exact Or.inl (lt_trans hab h)
    · exact Or.inl (h ▸ hab)

/-- `heappop` returns a least seed: no remaining seed is smaller. -/
theorem popMin_least (l : List (P × Nat)) (x : P × Nat) (rest : List (P × Nat))
    (h : popMin l = some (x, rest)) : ∀ y ∈ rest, seedLt y x = false := by
  induction l generalizing x rest with
  | nil => simp [popMin] at h
  | cons z zs ih =>
    unfold popMin at h
    cases hp : popMin zs with
    | none =>
      rw [hp] at h
      simp at h
      obtain ⟨rfl, rfl⟩ := h
      intro y hy; simp at hy
    | some mr =>
      obtain ⟨m, r⟩ := mr
      rw [hp] at h
      simp only at h
      have ihm := ih m r hp
      have hperm := popMin_perm zs m r hp
      split at h
      · rename_i hlt
        simp at h
        obtain ⟨rfl, rfl⟩ := h
        intro y hy
        rcases List.mem_cons.mp hy with rfl | hy
        · exact seedLt_asymm _ _ hlt
        · exact ihm y hy
      · rename_i hnlt
        simp at h
        obtain ⟨rfl, rfl⟩ := h
        intro y hy
        have hmx : seedLt m z = false := by simpa using hnlt
        rcases List.mem_cons.mp (hperm.subset hy) with rfl | hy'
        · exact hmx
        · exact seedLt_neg_trans _ _ _ (ihm y hy') hmx

/-! ## The state changes of the search, as a relation

Every phase of `search` is a sequence of four kinds of elementary changes; each
invariant below is proved once, for these four, and then holds along every phase. -/

/-- `offer`: a not-yet-visited vertex is pushed to the result heap and the seed set and
marked (in either order: the state is observed after the whole step); `skip`: a vertex is
marked but fails `d < distance_bound`; `pop`: `heappop`; `rebound`: the bound is recomputed. -/
inductive Step (n : Nat) (dq : Nat → P) : SState P → SState P → Prop
  | offer (s : SState P) (c : Nat) (b : P) (hc : c < n) (hv : visited s.vis c = false) :
      Step n dq s { heap := (pushSimple s.heap (dq c) c).1, seeds := (dq c, c) :: s.seeds,
                    vis := mark s.vis c, bound := b }
  | skip (s : SState P) (c : Nat) (hc : c < n) : Step n dq s { s with vis := mark s.vis c }
  | pop (s : SState P) (x : P × Nat) (rest : List (P × Nat)) (h : s.seeds.Perm (x :: rest)) :
      Step n dq s { s with seeds := rest }
  | rebound (s : SState P) (b : P) : Step n dq s { s with bound := b }

inductive Steps (n : Nat) (dq : Nat → P) : SState P → SState P → Prop
  | refl (s : SState P) : Steps n dq s s
  | tail {s t u : SState P} : Steps n dq s t → Step n dq t u → Steps n dq s u

theorem Steps.trans {n : Nat} {dq : Nat → P} {s t u : SState P}
    (h1 : Steps n dq s t) (h2 : Steps n dq t u) : Steps n dq s u := by
  induction h2 with
  | refl => exact h1
  | tail _ hstep ih => exact Steps.tail ih hstep

theorem Steps.single {n : Nat} {dq : Nat → P} {s t : SState P} (h : Step n dq s t) :
    Steps n dq s t := Steps.tail (Steps.refl s) h

/-- an invariant of `Step` is an invariant of `Steps` -/
theorem Steps.preserves {n : Nat} {dq : Nat → P} (Inv : SState P → Prop)
    (hstep : ∀ s t, Step n dq s t → Inv s → Inv t) {s t : SState P}
    (h : Steps n dq s t) (hs : Inv s) : Inv t := by
  induction h with
  | refl => exact hs
  | tail _ hst ih => exact hstep _ _ hst ih

/-! ### the phases are `Steps` -/

theorem leafStep_step (n : Nat) (dq : Nat → P) (s : SState P) (c : Nat) (hc : c < n)
    (hv : visited s.vis c = false) : Step n dq s (leafStep dq s c) :=
  Step.offer s c s.bound hc hv

theorem leaf_steps (n : Nat) (dq : Nat → P) (rest : List Nat) (s : SState P)
    (hlt : ∀ c ∈ rest, c < n) (hun : ∀ c ∈ rest, visited s.vis c = false) (hnd : rest.Nodup) :
    Steps n dq s (rest.foldl (leafStep dq) s) := by
  induction rest generalizing s with
  | nil => exact Steps.refl s
  | cons c cs ih =>
    rw [List.foldl_cons]
    have h1 := leafStep_step n dq s c (hlt c (by simp)) (hun c (by simp))
    refine (Steps.single h1).trans (ih _ (fun x hx => hlt x (by simp [hx])) ?_ (List.nodup_cons.mp hnd).2)
    intro x hx
    have hne : x ≠ c := fun h => (List.nodup_cons.mp hnd).1 (h ▸ hx)
    have hx' := hun x (by simp [hx])
    rw [Bool.eq_false_iff, ne_eq] at hx' ⊢
    show ¬ visited (mark s.vis c) x = true
    rw [visited_mark]
    rintro (⟨h, _⟩ | h)
    · exact hne h
    · exact hx' h

theorem rand_steps (n : Nat) (dq : Nat → P) (draws : List Nat) (s : SState P)
    (hlt : ∀ c ∈ draws, c < n) : Steps n dq s (draws.foldl (randStep dq) s) := by
  induction draws generalizing s with
  | nil => exact Steps.refl s
  | cons c cs ih =>
    rw [List.foldl_cons]
    have hrest := ih (randStep dq s c) (fun x hx => hlt x (by simp [hx]))
    refine Steps.trans ?_ hrest
    unfold randStep
    by_cases hv : visited s.vis c = true
    · rw [if_pos hv]; exact Steps.refl s
    · rw [if_neg hv]
      exact Steps.single (leafStep_step n dq s c (hlt c (by simp)) (by simpa using hv))

theorem expandStep_steps (n : Nat) (top : P) (scale : P → P) (dq : Nat → P) (s : SState P) (c : Nat)
    (hc : c < n) : Steps n dq s (expandStep top scale dq s c) := by
  unfold expandStep
  by_cases hv : visited s.vis c = true
  · rw [if_pos hv]; exact Steps.refl s
  · rw [if_neg hv]
    by_cases hb : dq c < s.bound
    · rw [if_pos hb]
      exact Steps.single (Step.offer s c _ hc (by simpa using hv))
    · rw [if_neg hb]
      exact Steps.single (Step.skip s c hc)

theorem expand_steps (n : Nat) (top : P) (scale : P → P) (dq : Nat → P) (cs : List Nat) (s : SState P)
    (hlt : ∀ c ∈ cs, c < n) : Steps n dq s (cs.foldl (expandStep top scale dq) s) := by
  induction cs generalizing s with
  | nil => exact Steps.refl s
  | cons c cs ih =>
    rw [List.foldl_cons]
    exact (expandStep_steps n top scale dq s c (hlt c (by simp))).trans
      (ih _ (fun x hx => hlt x (by simp [hx])))

theorem mem_nbrs (indptr indices : Array Nat) (v c : Nat) (h : c ∈ nbrs indptr indices v) :
    c ∈ indices := by
  unfold nbrs at h
  rw [Array.mem_toList_iff, Array.mem_extract_iff_getElem] at h
  obtain ⟨k, hk, rfl⟩ := h
  exact Array.getElem_mem _

theorem loop_steps (n : Nat) (top : P) (scale : P → P) (indptr indices : Array Nat) (dq : Nat → P)
    (hcsr : ∀ c ∈ indices, c < n) (fuel : Nat) (s : SState P) (dv : P) (v : Nat) :
    Steps n dq s (searchLoop top scale indptr indices dq fuel s dv v).1 := by
  induction fuel generalizing s dv v with
  | zero => exact Steps.refl s
  | succ fuel ih =>
    unfold searchLoop
    by_cases hb : dv < s.bound
    · rw [if_pos hb]
      have h1 := expand_steps n top scale dq (nbrs indptr indices v) s
        (fun c hc => hcsr c (mem_nbrs _ _ _ _ hc))
      simp only
      cases hp : popMin ((nbrs indptr indices v).foldl (expandStep top scale dq) s).seeds with
      | none => exact h1
      | some xr =>
        obtain ⟨x, rest⟩ := xr
        exact (h1.tail (Step.pop _ x rest (popMin_perm _ _ _ hp))).trans (ih _ _ _)
    · rw [if_neg hb]
      exact Steps.refl s

omit [LinearOrder P] in
theorem visited_empty (top : P) (n k c : Nat) : visited (emptyState top n k).vis c = false := by
  unfold visited emptyState
  simp only [Array.getElem?_replicate]
  split <;> rfl

theorem init_steps (n k nNeighbors : Nat) (top : P) (scale : P → P) (dq : Nat → P)
    (leaf draws : List Nat) (hleaf : leaf.Nodup) (hleafn : ∀ c ∈ leaf, c < n)
    (hdraws : ∀ c ∈ draws, c < n) :
    Steps n dq (emptyState top n k) (initState top scale n k nNeighbors dq leaf draws) := by
  unfold initState
  have h1 := leaf_steps n dq leaf (emptyState top n k) hleafn (fun c _ => visited_empty top n k c) hleaf
  have h2 := rand_steps n dq (draws.take (min k nNeighbors - leaf.length))
    (leaf.foldl (leafStep dq) (emptyState top n k)) (fun c hc => hdraws c (List.mem_of_mem_take hc))
  exact (h1.trans h2).tail (Step.rebound _ _)

theorem search_steps (n k nNeighbors : Nat) (top : P) (scale : P → P) (indptr indices : Array Nat)
    (dq : Nat → P) (leaf draws : List Nat) (fuel : Nat) (hcsr : ∀ c ∈ indices, c < n)
    (hleaf : leaf.Nodup) (hleafn : ∀ c ∈ leaf, c < n) (hdraws : ∀ c ∈ draws, c < n) :
    Steps n dq (emptyState top n k)
      (search top scale n k nNeighbors indptr indices dq leaf draws fuel).1 := by
  have h0 := init_steps n k nNeighbors top scale dq leaf draws hleaf hleafn hdraws
  unfold search
  simp only
  cases hp : popMin (initState top scale n k nNeighbors dq leaf draws).seeds with
  | none => exact h0
  | some xr =>
    obtain ⟨x, rest⟩ := xr
    exact (h0.tail (Step.pop _ x rest (popMin_perm _ _ _ hp))).trans
      (loop_steps n top scale indptr indices dq hcsr fuel _ _ _)

/-! ## Invariants -/

/-- sizes of the table and of the row never change -/
theorem Steps.sizes {n : Nat} {dq : Nat → P} {s t : SState P} (h : Steps n dq s t) :
    t.vis.size = s.vis.size ∧ t.heap.size = s.heap.size := by
  refine Steps.preserves (fun u => u.vis.size = s.vis.size ∧ u.heap.size = s.heap.size) ?_ h ⟨rfl, rfl⟩
  intro a b hab ⟨h1, h2⟩
  cases hab with
  | offer c b hc hv => exact ⟨by simpa using h1, by simpa [push_size] using h2⟩
  | skip c hc => exact ⟨by simpa using h1, h2⟩
  | pop x rest hp => exact ⟨h1, h2⟩
  | rebound b => exact ⟨h1, h2⟩

/-- the termination measure: seeds still to pop + vertices that can still become seeds -/
def mu (s : SState P) : Nat := s.seeds.length + unvis s.vis

theorem Step.mu_le {n : Nat} {dq : Nat → P} {s t : SState P} (h : Step n dq s t)
    (hsz : s.vis.size = n) : mu t ≤ mu s := by
  cases h with
  | offer c b hc hv =>
    have := unvis_mark_lt s.vis c (by omega) hv
    simp only [mu, List.length_cons]
    omega
  | skip c hc =>
    have := unvis_mark_le s.vis c
    simp only [mu]
    omega
  | pop x rest hp =>
    have := hp.length_eq
    simp only [mu, List.length_cons] at this ⊢
    omega
  | rebound b => exact Nat.le_refl _

theorem Steps.mu_le {n : Nat} {dq : Nat → P} {s t : SState P} (h : Steps n dq s t)
    (hsz : s.vis.size = n) : mu t ≤ mu s ∧ t.vis.size = n := by
  induction h with
  | refl => exact ⟨Nat.le_refl _, hsz⟩
  | tail hst hstep ih =>
    have hs := (Steps.single hstep).sizes
    exact ⟨Nat.le_trans (hstep.mu_le ih.2) ih.1, by rw [hs.1]; exact ih.2⟩

/-- What the result heap knows: `offers` (ghost) lists the vertices handed to
`simple_heap_push` so far; all of them are real vertices and marked visited — which is
why none is offered twice. -/
structure HInv (top : P) (n : Nat) (dq : Nat → P) (offers : List Nat) (s : SState P) : Prop where
  row : RowInv top dq (offers.map (fun o => (o, false))) s.heap
  lt : ∀ o ∈ offers, o < n
  vis : ∀ o ∈ offers, visited s.vis o = true
  size : s.vis.size = n

theorem Step.hinv {top : P} (htop : ∀ x : P, x ≤ top) {n : Nat} {dq : Nat → P} {s t : SState P}
    (h : Step n dq s t) (hs : ∃ offers, HInv top n dq offers s) :
    ∃ offers, HInv top n dq offers t := by
  obtain ⟨offers, hinv⟩ := hs
  cases h with
  | offer c b hc hv =>
    refine ⟨c :: offers, ?_, ?_, ?_, ?_⟩
    · have hnew : false = false → c ∉ (offers.map (fun o => (o, false))).map (·.1) := by
        intro _ hmem
        rw [List.map_map] at hmem
        obtain ⟨o, ho, rfl⟩ := List.mem_map.mp hmem
        have := hinv.vis o ho
        simp only [Function.comp] at hv
        rw [this] at hv
        exact Bool.noConfusion hv
      exact push_inv false top htop dq _ s.heap c false hnew hinv.row
    · intro o ho
      rcases List.mem_cons.mp ho with rfl | ho
      · exact hc
      · exact hinv.lt o ho
    · intro o ho
      show visited (mark s.vis c) o = true
      rw [visited_mark]
      rcases List.mem_cons.mp ho with rfl | ho
      · exact Or.inl ⟨rfl, by rw [hinv.size]; exact hc⟩
      · exact Or.inr (hinv.vis o ho)
    · show (mark s.vis c).size = n
      rw [mark_size]; exact hinv.size
  | skip c hc =>
    refine ⟨offers, hinv.row, hinv.lt, ?_, ?_⟩
    · intro o ho
      show visited (mark s.vis c) o = true
      rw [visited_mark]
      exact Or.inr (hinv.vis o ho)
    · show (mark s.vis c).size = n
      rw [mark_size]; exact hinv.size
  | pop x rest hp => exact ⟨offers, hinv.row, hinv.lt, hinv.vis, hinv.size⟩
  | rebound b => exact ⟨offers, hinv.row, hinv.lt, hinv.vis, hinv.size⟩

/-- What the seed set knows: every seed is a visited real vertex with its own distance,
and no vertex occurs twice. -/
structure SeedInv (n : Nat) (dq : Nat → P) (s : SState P) : Prop where
  vis : ∀ x ∈ s.seeds, visited s.vis x.2 = true
  lt : ∀ x ∈ s.seeds, x.2 < n
  dist : ∀ x ∈ s.seeds, x.1 = dq x.2
  nodup : (s.seeds.map (·.2)).Nodup
  size : s.vis.size = n

theorem Step.seedInv {n : Nat} {dq : Nat → P} {s t : SState P}
    (h : Step n dq s t) (hinv : SeedInv n dq s) : SeedInv n dq t := by
  cases h with
  | offer c b hc hv =>
    refine ⟨?_, ?_, ?_, ?_, ?_⟩
    · intro x hx
      show visited (mark s.vis c) x.2 = true
      rw [visited_mark]
      rcases List.mem_cons.mp hx with rfl | hx
      · exact Or.inl ⟨rfl, by rw [hinv.size]; exact hc⟩
      · exact Or.inr (hinv.vis x hx)
    · intro x hx
      rcases List.mem_cons.mp hx with rfl | hx
      · exact hc
      · exact hinv.lt x hx
    · intro x hx
      rcases List.mem_cons.mp hx with rfl | hx
      · rfl
      · exact hinv.dist x hx
    · show (((dq c, c) :: s.seeds).map (·.2)).Nodup
      rw [List.map_cons, List.nodup_cons]
      refine ⟨?_, hinv.nodup⟩
      intro hmem
      obtain ⟨x, hx, hxc⟩ := List.mem_map.mp hmem
      have := hinv.vis x hx
      rw [hxc] at this
      rw [this] at hv
      exact Bool.noConfusion hv
    · show (mark s.vis c).size = n
      rw [mark_size]; exact hinv.size
  | skip c hc =>
    refine ⟨?_, hinv.lt, hinv.dist, hinv.nodup, ?_⟩
    · intro x hx
      show visited (mark s.vis c) x.2 = true
      rw [visited_mark]
      exact Or.inr (hinv.vis x hx)
    · show (mark s.vis c).size = n
      rw [mark_size]; exact hinv.size
  | pop x rest hp =>
    have hsub : ∀ y ∈ rest, y ∈ s.seeds := fun y hy => hp.symm.subset (List.mem_cons_of_mem _ hy)
    refine ⟨fun y hy => hinv.vis y (hsub y hy), fun y hy => hinv.lt y (hsub y hy),
      fun y hy => hinv.dist y (hsub y hy), ?_, hinv.size⟩
    have := (hp.map (·.2)).nodup_iff.mp hinv.nodup
    rw [List.map_cons, List.nodup_cons] at this
    exact this.2
  | rebound b => exact ⟨hinv.vis, hinv.lt, hinv.dist, hinv.nodup, hinv.size⟩

/-! ## The empty state -/

theorem empty_hinv (top : P) (n k : Nat) (dq : Nat → P) : HInv top n dq [] (emptyState top n k) :=
  ⟨mkRow_inv top k dq, nofun, nofun, by simp [emptyState]⟩

omit [LinearOrder P] in
theorem empty_seedInv (top : P) (n k : Nat) (dq : Nat → P) : SeedInv n dq (emptyState top n k) :=
  ⟨nofun, nofun, nofun, List.nodup_nil, by simp [emptyState]⟩

omit [LinearOrder P] in
theorem empty_mu (top : P) (n k : Nat) : mu (emptyState top n k) = n := by
  simp [mu, emptyState, unvis]

/-! ## Termination and fuel -/

theorem loop_terminates (n : Nat) (top : P) (scale : P → P) (indptr indices : Array Nat)
    (dq : Nat → P) (hcsr : ∀ c ∈ indices, c < n) (fuel : Nat) (s : SState P) (dv : P) (v : Nat)
    (hsz : s.vis.size = n) (hfuel : mu s < fuel) :
    (searchLoop top scale indptr indices dq fuel s dv v).2 = true := by
  induction fuel generalizing s dv v with
  | zero => omega
  | succ fuel ih =>
    unfold searchLoop
    by_cases hb : dv < s.bound
    · rw [if_pos hb]
      have h1 := (expand_steps n top scale dq (nbrs indptr indices v) s
        (fun c hc => hcsr c (mem_nbrs _ _ _ _ hc))).mu_le hsz
      simp only
      cases hp : popMin ((nbrs indptr indices v).foldl (expandStep top scale dq) s).seeds with
      | none => rfl
      | some xr =>
        obtain ⟨x, rest⟩ := xr
        have hlen := popMin_length _ _ _ hp
        apply ih
        · exact h1.2
        · have h2 := h1.1
          simp only [mu] at h2 hfuel ⊢
          omega
    · rw [if_neg hb]

theorem loop_fuel_mono (top : P) (scale : P → P) (indptr indices : Array Nat) (dq : Nat → P)
    (fuel fuel' : Nat) (s : SState P) (dv : P) (v : Nat) (hle : fuel ≤ fuel')
    (h : (searchLoop top scale indptr indices dq fuel s dv v).2 = true) :
    searchLoop top scale indptr indices dq fuel' s dv v
      = searchLoop top scale indptr indices dq fuel s dv v := by
  induction fuel generalizing fuel' s dv v with
  | zero => simp [searchLoop] at h
  | succ fuel ih =>
    obtain ⟨f', rfl⟩ : ∃ f', fuel' = f' + 1 := ⟨fuel' - 1, by omega⟩
    unfold searchLoop at h ⊢
    by_cases hb : dv < s.bound
    · simp only [if_pos hb] at h ⊢
      cases hp : popMin ((nbrs indptr indices v).foldl (expandStep top scale dq) s).seeds with
      | none => rfl
      | some xr =>
        obtain ⟨x, rest⟩ := xr
        rw [hp] at h
        exact ih f' _ _ _ (by omega) h
    · simp only [if_neg hb]

/-! ## The first `heappop` finds a seed -/

theorem leafStep_seeds_length (dq : Nat → P) (s : SState P) (c : Nat) :
    (leafStep dq s c).seeds.length = s.seeds.length + 1 := by
  simp [leafStep]

theorem foldl_leafStep_seeds_length (dq : Nat → P) (cs : List Nat) (s : SState P) :
    (cs.foldl (leafStep dq) s).seeds.length = s.seeds.length + cs.length := by
  induction cs generalizing s with
  | nil => rfl
  | cons c cs ih => rw [List.foldl_cons, ih, leafStep_seeds_length, List.length_cons]; omega

theorem foldl_randStep_seeds_length (dq : Nat → P) (cs : List Nat) (s : SState P) :
    s.seeds.length ≤ (cs.foldl (randStep dq) s).seeds.length := by
  induction cs generalizing s with
  | nil => exact Nat.le_refl _
  | cons c cs ih =>
    rw [List.foldl_cons]
    refine Nat.le_trans ?_ (ih _)
    unfold randStep
    split
    · exact Nat.le_refl _
    · rw [leafStep_seeds_length]; omega

/-- With `k ≥ 1`, `n_neighbors ≥ 1` and a generator that delivers the values the code asks
for, the init phase leaves at least one seed: either the leaf is non-empty, or the first
random candidate meets a cleared table. -/
theorem init_seeds_nonempty (top : P) (scale : P → P) (n k nNeighbors : Nat) (dq : Nat → P)
    (leaf draws : List Nat) (hk : 1 ≤ k) (hnn : 1 ≤ nNeighbors)
    (hdr : min k nNeighbors - leaf.length ≤ draws.length) :
    (initState top scale n k nNeighbors dq leaf draws).seeds ≠ [] := by
  unfold initState
  simp only
  intro hnil
  have hlen := congrArg List.length hnil
  simp only [List.length_nil] at hlen
  have h1 := foldl_leafStep_seeds_length dq leaf (emptyState top n k)
  have h2 := foldl_randStep_seeds_length dq (draws.take (min k nNeighbors - leaf.length))
    (leaf.foldl (leafStep dq) (emptyState top n k))
  have hleaf : leaf = [] := by
    apply List.eq_nil_of_length_eq_zero
    omega
  subst hleaf
  simp only [List.length_nil, Nat.sub_zero, List.foldl_nil] at hlen hdr
  cases draws with
  | nil => simp only [List.length_nil] at hdr; omega
  | cons d ds =>
    have hm : min k nNeighbors = (min k nNeighbors - 1) + 1 := by omega
    rw [hm, List.take_succ_cons, List.foldl_cons] at hlen
    have hstep : randStep dq (emptyState top n k) d = leafStep dq (emptyState top n k) d := by
      unfold randStep
      rw [visited_empty]; rfl
    rw [hstep] at hlen
    have h3 := foldl_randStep_seeds_length dq (ds.take (min k nNeighbors - 1))
      (leafStep dq (emptyState top n k) d)
    rw [leafStep_seeds_length] at h3
    omega

/-! ## Assembly -/

theorem search_hinv (top : P) (htop : ∀ x : P, x ≤ top) (scale : P → P) (n k nNeighbors : Nat)
    (indptr indices : Array Nat) (dq : Nat → P) (leaf draws : List Nat) (fuel : Nat)
    (hcsr : ∀ c ∈ indices, c < n) (hleaf : leaf.Nodup) (hleafn : ∀ c ∈ leaf, c < n)
    (hdraws : ∀ c ∈ draws, c < n) :
    ∃ offers, HInv top n dq offers
      (search top scale n k nNeighbors indptr indices dq leaf draws fuel).1 :=
  Steps.preserves (fun s => ∃ offers, HInv top n dq offers s) (fun _ _ h hs => h.hinv htop hs)
    (search_steps n k nNeighbors top scale indptr indices dq leaf draws fuel hcsr hleaf hleafn hdraws)
    ⟨[], empty_hinv top n k dq⟩

theorem search_seedInv (top : P) (scale : P → P) (n k nNeighbors : Nat)
    (indptr indices : Array Nat) (dq : Nat → P) (leaf draws : List Nat) (fuel : Nat)
    (hcsr : ∀ c ∈ indices, c < n) (hleaf : leaf.Nodup) (hleafn : ∀ c ∈ leaf, c < n)
    (hdraws : ∀ c ∈ draws, c < n) :
    SeedInv n dq (search top scale n k nNeighbors indptr indices dq leaf draws fuel).1 :=
  Steps.preserves (SeedInv n dq) (fun _ _ h hs => h.seedInv hs)
    (search_steps n k nNeighbors top scale indptr indices dq leaf draws fuel hcsr hleaf hleafn hdraws)
    (empty_seedInv top n k dq)

theorem search_heap_size (top : P) (scale : P → P) (n k nNeighbors : Nat)
    (indptr indices : Array Nat) (dq : Nat → P) (leaf draws : List Nat) (fuel : Nat)
    (hcsr : ∀ c ∈ indices, c < n) (hleaf : leaf.Nodup) (hleafn : ∀ c ∈ leaf, c < n)
    (hdraws : ∀ c ∈ draws, c < n) :
    (search top scale n k nNeighbors indptr indices dq leaf draws fuel).1.heap.size = k := by
  have := (search_steps n k nNeighbors top scale indptr indices dq leaf draws fuel hcsr hleaf hleafn
    hdraws).sizes.2
  rw [this]; simp [emptyState, mkRow]

theorem nodup_getElem_inj {α : Type} (l : List α) (hnd : l.Nodup) (i j : Nat) (hi : i < l.length)
    (hj : j < l.length) (h : l[i] = l[j]) : i = j := by
  have hp := List.pairwise_iff_getElem.mp hnd
  rcases Nat.lt_trichotomy i j with hlt | heq | hgt
  · exact absurd h (hp i j hi hj hlt)
  · exact heq
  · exact absurd h.symm (hp j i hj hi hgt)

omit [LinearOrder P] in
/-- duplicate-freeness of the held candidates, read position-wise -/
theorem real_idx_distinct (l : List (Entry P))
    (hnd : ((l.filter (fun e => 0 ≤ e.idx)).map (·.idx)).Nodup)
    (i j : Nat) (hi : i < l.length) (hj : j < l.length) (hij : i < j) (h0 : 0 ≤ l[i].idx) :
    l[i].idx ≠ l[j].idx := by
  by_cases hj0 : 0 ≤ l[j].idx
  · rw [List.Nodup, List.pairwise_map, List.pairwise_filter] at hnd
    have := (List.pairwise_iff_getElem.mp hnd) i j hi hj hij
    exact this (by simpa using h0) (by simpa using hj0)
  · omega

end Pynn
