import PynnVerif.Model.ThreadFlow

/-! # Relational semantics of skeletons and soundness of `safe` -/
namespace Pynn.TF
open Exit Stmt

/-- Big-step relational semantics: `Run st s e s'` — some execution of `st`
started in thread state `s` leaves through exit `e` in state `s'`.  Every
`mayRaise`/`set` point may raise; an `if` may take either branch; `finally`
always runs; an `except` handler may or may not match. -/
inductive Run : Stmt → TS → Exit → TS → Prop
  | skip (s) : Run skip s normal s
  | get (s) : Run getT s normal { s with saved := some s.changed }
  | set_ok (s) : Run setT s normal { s with changed := true }
  | set_raise (s) : Run setT s raised s
  | restore_some (s v) : s.saved = some v → Run restore s normal { s with changed := v }
  | restore_stale (s) : s.saved = none → Run restore s normal { s with changed := true }
  | restore_missing (s) : s.saved = none → Run restore s raised s
  | may_ok (s) : Run mayRaise s normal s
  | may_raise (s) : Run mayRaise s raised s
  | raise_ (s) : Run raise_ s raised s
  | ret (s) : Run ret s returned s
  | unknown (s e) : Run unknown s e ⟨true, none⟩
  | call_saved (s e) : e ≠ returned → Run callT s e { s with saved := some s.changed }
  | call_early (s e) : e ≠ returned → Run callT s e s
  | seq_stop (a b s e s') : Run a s e s' → e ≠ normal → Run (seq a b) s e s'
  | seq_go (a b s s' e s'') : Run a s normal s' → Run b s' e s'' → Run (seq a b) s e s''
  | ite_l (a b s e s') : Run a s e s' → Run (br a b) s e s'
  | ite_r (a b s e s') : Run b s e s' → Run (br a b) s e s'
  | fin_pass (body fin s e s' s'') : Run body s e s' → Run fin s' normal s'' →
      Run (tryFin body fin) s e s''
  | fin_override (body fin s e s' e2 s'') : Run body s e s' → Run fin s' e2 s'' → e2 ≠ normal →
      Run (tryFin body fin) s e2 s''
  | exc_none (body h s e s') : Run body s e s' → e ≠ raised → Run (tryExc body h) s e s'
  | exc_unhandled (body h s s') : Run body s raised s' → Run (tryExc body h) s raised s'
  | exc_handled (body h s s' e s'') : Run body s raised s' → Run h s' e s'' →
      Run (tryExc body h) s e s''

/-- `exec` enumerates every execution. -/
theorem exec_complete {st : Stmt} {s : TS} {e : Exit} {s' : TS} (h : Run st s e s') :
    (e, s') ∈ exec st s := by
  induction h with
  | skip | get | set_ok | set_raise | may_ok | may_raise | raise_ | ret => simp [exec]
  | restore_some s v hv => simp [exec, hv]
  | restore_stale s hv => simp [exec, hv]
  | restore_missing s hv => simp [exec, hv]
  | unknown s e => cases e <;> simp [exec]
  | call_saved s e he => cases e <;> simp_all [exec]
  | call_early s e he => cases e <;> simp_all [exec]
  | seq_stop a b s e s' _ hne ih =>
    simp only [exec, List.mem_eraseDups, List.mem_flatMap]
    exact ⟨(e, s'), ih, by simp [hne]⟩
  | seq_go a b s s' e s'' _ _ ih1 ih2 =>
    simp only [exec, List.mem_eraseDups, List.mem_flatMap]
    exact ⟨(normal, s'), ih1, by simpa using ih2⟩
  | ite_l a b s e s' _ ih => simp [exec, List.mem_eraseDups, ih]
  | ite_r a b s e s' _ ih => simp [exec, List.mem_eraseDups, ih]
  | fin_pass body fin s e s' s'' _ _ ih1 ih2 =>
    simp only [exec, List.mem_eraseDups, List.mem_flatMap, List.mem_map]
    exact ⟨(e, s'), ih1, (normal, s''), ih2, by simp⟩
  | fin_override body fin s e s' e2 s'' _ _ hne ih1 ih2 =>
    simp only [exec, List.mem_eraseDups, List.mem_flatMap, List.mem_map]
    exact ⟨(e, s'), ih1, (e2, s''), ih2, by simp [hne]⟩
  | exc_none body h s e s' _ hne ih =>
    simp only [exec, List.mem_eraseDups, List.mem_flatMap]
    exact ⟨(e, s'), ih, by simp [hne]⟩
  | exc_unhandled body h s s' _ ih =>
    simp only [exec, List.mem_eraseDups, List.mem_flatMap]
    exact ⟨(raised, s'), ih, by simp⟩
  | exc_handled body h s s' e s'' _ _ ih1 ih2 =>
    simp only [exec, List.mem_eraseDups, List.mem_flatMap]
    exact ⟨(raised, s'), ih1, by simp [ih2]⟩

/-- If the decidable check passes, *every* execution of the skeleton — normal
return or an exception at any may-raise point — ends with the process-wide
thread count equal to the count at entry. -/
theorem safe_sound (st : Stmt) (hs : safe st = true) :
    ∀ e s', Run st ⟨false, none⟩ e s' → s'.changed = false := by
  intro e s' hr
  have hm := exec_complete hr
  unfold safe at hs
  have := (List.all_eq_true.mp hs) (e, s') hm
  simpa using this

end Pynn.TF
