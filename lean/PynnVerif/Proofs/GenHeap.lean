import PynnVerif.Gen.Kernels
import PynnVerif.Model.Heap

/-!
# The translated heap kernels refine the hand-written heap model

`Gen/Kernels.lean` is regenerated from the source text of `pynndescent/utils.py` on every run
(`harness/translate_kernels.py`).  This file proves, for **every** input, that each generated heap
kernel (`GenK.simple_heap_push`, `GenK.checked_heap_push`, `GenK.checked_flagged_heap_push`,
`GenK.siftdown`)

* never reads or writes outside an array and never runs out of fuel (result `≠ none`) as soon as the
  parallel arrays have equal sizes, the row is not empty (pushes) and `fuel ≥ size + 1`;
* returns exactly what `Model/Heap.lean` returns (`Pynn.push`, `Pynn.siftdownSwap`) on the row obtained
  by zipping the parallel arrays (`zip2`, `zip3`).

No order axioms are used: the statements hold for any `P` with decidable `≤`, `<` — the kernels and the
model perform literally the same comparisons.  (So this file needs no Mathlib.)
-/
set_option linter.unusedSectionVars false
set_option linter.unusedSimpArgs false
namespace Pynn
open GenK
variable {P : Type}

/-! ## The abstraction: parallel arrays ↦ row of entries -/

/-- `(priorities, indices)` as a row of entries (kernels without a flag array: flags `false`). -/
def zip2 (pr : Array P) (ix : Array Int) : Row P := Array.zipWith (fun p i => ⟨p, i, false⟩) pr ix

/-- `(priorities, indices, flags)` as a row of entries; a flag byte is `true` iff it is non-zero. -/
def zip3 (pr : Array P) (ix : Array Int) (fl : Array Int) : Row P :=
  Array.zipWith (fun (e : Entry P) (f : Int) => ⟨e.prio, e.idx, f != 0⟩) (zip2 pr ix) fl

@[simp] theorem zip2_size (pr : Array P) (ix : Array Int) :
    (zip2 pr ix).size = min pr.size ix.size := by simp [zip2]

@[simp] theorem zip3_size (pr : Array P) (ix fl : Array Int) :
    (zip3 pr ix fl).size = min (min pr.size ix.size) fl.size := by simp [zip3]

@[simp] theorem zip2_getElem (pr : Array P) (ix : Array Int) (k : Nat) (h : k < (zip2 pr ix).size) :
    (zip2 pr ix)[k] = ⟨pr[k]'(by simp at h; omega), ix[k]'(by simp at h; omega), false⟩ := by
  simp [zip2]

@[simp] theorem zip3_getElem (pr : Array P) (ix fl : Array Int) (k : Nat) (h : k < (zip3 pr ix fl).size) :
    (zip3 pr ix fl)[k] = ⟨pr[k]'(by simp at h; omega), ix[k]'(by simp at h; omega),
      fl[k]'(by simp at h; omega) != 0⟩ := by
  simp [zip3]

theorem zip2_set (pr : Array P) (ix : Array Int) (k : Nat) (x : P) (y : Int) :
    zip2 (pr.setIfInBounds k x) (ix.setIfInBounds k y) = (zip2 pr ix).setIfInBounds k ⟨x, y, false⟩ := by
  apply Array.ext
  · simp
  · intro j h1 h2
    simp at h1 h2
    simp only [zip2, Array.getElem_zipWith, Array.getElem_setIfInBounds]
    grind

theorem zip3_set (pr : Array P) (ix fl : Array Int) (k : Nat) (x : P) (y z : Int) :
    zip3 (pr.setIfInBounds k x) (ix.setIfInBounds k y) (fl.setIfInBounds k z)
      = (zip3 pr ix fl).setIfInBounds k ⟨x, y, z != 0⟩ := by
  apply Array.ext
  · simp
  · intro j h1 h2
    simp at h1 h2
    simp only [zip3, zip2, Array.getElem_zipWith, Array.getElem_setIfInBounds]
    grind

/-- the abstraction loses nothing: equal-sized parallel arrays are determined by their row -/
theorem zip2_inj {pr pr' : Array P} {ix ix' : Array Int} (h : pr.size = ix.size) (h' : pr'.size = ix'.size)
    (e : zip2 pr ix = zip2 pr' ix') : pr = pr' ∧ ix = ix' := by
  have hs : (zip2 pr ix).size = (zip2 pr' ix').size := by rw [e]
  simp at hs
  have key : ∀ k (hk : k < pr.size), pr[k] = pr'[k]'(by omega) ∧ ix[k]'(by omega) = ix'[k]'(by omega) := by
    intro k hk
    have := congrArg (fun r : Row P => r[k]?) e
    simp [zip2, Array.getElem?_zipWith] at this
    have a1 : pr[k]? = some pr[k] := by simp [hk]
    have a2 : ix[k]? = some (ix[k]'(by omega)) := by simp
    have a3 : pr'[k]? = some (pr'[k]'(by omega)) := by simp
    have a4 : ix'[k]? = some (ix'[k]'(by omega)) := by simp
    rw [a1, a2, a3, a4] at this
    simpa using this
  constructor
  · apply Array.ext (by omega); intro k h1 h2; exact (key k h1).1
  · apply Array.ext (by omega); intro k h1 h2; exact (key k (by omega)).2

/-! ## `rd` / `wr` at natural-number positions -/

theorem rd_lt {α} (a : Array α) (k : Nat) (h : k < a.size) : rd a (k : Int) = some a[k] := by
  simp [rd, h]
theorem wr_lt {α} (a : Array α) (k : Nat) (v : α) (h : k < a.size) :
    wr a (k : Int) v = some (a.setIfInBounds k v) := by
  simp [wr, h]
theorem rd_zero {α} (a : Array α) (h : 0 < a.size) : rd a (0 : Int) = some a[0] := by
  simp [rd, h]
theorem wr_zero {α} (a : Array α) (v : α) (h : 0 < a.size) :
    wr a (0 : Int) v = some (a.setIfInBounds 0 v) := by
  simp [wr, h]
theorem rd_empty {α} (a : Array α) (h : a.size = 0) (i : Int) : rd a i = none := by
  simp [rd]; intro _; omega

/-! ## Model facts that need no order axioms -/

variable [LE P] [LT P] [DecidableLE P] [DecidableLT P]

theorem sift_size' (a : Row P) (e : Entry P) (i : Nat) : (sift a e i).size = a.size := by
  fun_induction sift a e i <;> simp_all

/-- `sift` never reads the hole: what is stored there before does not matter.  (The kernels write the
new entry into slot 0 *before* sifting; the model only writes the final position.) -/
theorem sift_set_hole (a : Row P) (e x : Entry P) (i : Nat) :
    sift (a.setIfInBounds i x) e i = sift a e i := by
  have g : ∀ (c : Nat) (hc : c < a.size), i < c →
      (a.setIfInBounds i x)[c]'(by simpa using hc) = a[c] := by
    intro c hc hic; rw [Array.getElem_setIfInBounds]; split
    · omega
    · rfl
  rw [sift.eq_1 a, sift.eq_1 (a.setIfInBounds i x)]
  simp only [Array.size_setIfInBounds, Array.setIfInBounds_setIfInBounds]
  by_cases h1 : 2 * i + 1 < a.size
  · by_cases h2 : 2 * i + 2 < a.size
    · simp only [h1, h2, dite_true, g (2*i+1) h1 (by omega), g (2*i+2) h2 (by omega)]
    · simp only [h1, h2, dite_true, dite_false, g (2*i+1) h1 (by omega)]
  · simp only [h1, dite_false]

/-! ## The hole loop of the push kernels = `sift` -/

set_option hygiene false in
/-- the proof of the two-array hole loop, parametric in the name of the generated loop (the two kernels
have textually separate loops); unhygienic on purpose: it refers to the theorem's binders `p`, `n` -/
local macro "hole_loop2_tac " L:ident : tactic => `(tactic| (
  intro fuel
  induction fuel with
  | zero => intro pr ix i hs hi hf; omega
  | succ fuel ih =>
    intro pr ix i hs hi hf
    have e1 : (2:Int) * (i:Int) + 1 = ((2*i+1 : Nat) : Int) := by push_cast; rfl
    have e2 : ((2*i+1 : Nat) : Int) + 1 = ((2*i+2 : Nat) : Int) := by push_cast; omega
    -- other spellings of the child positions (harmless rewrites of the source keep the proof alive)
    have e1' : (i:Int) * 2 + 1 = ((2*i+1 : Nat) : Int) := by push_cast; omega
    have e2' : (2:Int) * (i:Int) + 2 = ((2*i+2 : Nat) : Int) := by push_cast; rfl
    have e2'' : (i:Int) * 2 + 2 = ((2*i+2 : Nat) : Int) := by push_cast; omega
    rw [sift]
    unfold $L
    simp only [e1, e1', e2, e2', e2'']
    have hz : (zip2 pr ix).size = pr.size := by simp; omega
    have stepc : ∀ c : Nat, i < c → (hc : c < pr.size) → ∃ pr' ix', ∃ i' : Nat,
        $L p (pr.size : Int) fuel (pr.setIfInBounds i pr[c])
            (ix.setIfInBounds i (ix[c]'(by omega))) (c : Int)
          = some (.next (pr', ix', (i' : Int)))
        ∧ pr'.size = pr.size ∧ ix'.size = pr.size ∧ i' < pr.size ∧
        zip2 (pr'.setIfInBounds i' p) (ix'.setIfInBounds i' n)
          = sift ((zip2 pr ix).setIfInBounds i ⟨pr[c], ix[c]'(by omega), false⟩) ⟨p, n, false⟩ c := by
      intro c hic hc
      have := ih (pr.setIfInBounds i pr[c]) (ix.setIfInBounds i (ix[c]'(by omega))) c
        (by simp; omega) (by simp; omega) (by simp; omega)
      simpa only [Array.size_setIfInBounds, zip2_set] using this
    have stay : ∃ pr' ix', ∃ i' : Nat,
        (pure (LoopOut.next (pr, ix, (i : Int))) : Option (LoopOut (Array P × Array Int × Int) (Array P × Array Int × Int)))
          = some (.next (pr', ix', (i' : Int)))
        ∧ pr'.size = pr.size ∧ ix'.size = pr.size ∧ i' < pr.size ∧
        zip2 (pr'.setIfInBounds i' p) (ix'.setIfInBounds i' n)
          = (zip2 pr ix).setIfInBounds i ⟨p, n, false⟩ :=
      ⟨pr, ix, i, rfl, rfl, by omega, hi, zip2_set ..⟩
    by_cases h1 : 2 * i + 1 < pr.size
    · have r1 := rd_lt pr (2*i+1) h1
      have r1' := rd_lt ix (2*i+1) (by omega)
      have c1 : ¬ ((2*i+1 : Nat) : Int) ≥ (pr.size : Int) := by omega
      by_cases h2 : 2 * i + 2 < pr.size
      · have r2 := rd_lt pr (2*i+2) h2
        have r2' := rd_lt ix (2*i+2) (by omega)
        have c2 : ¬ ((2*i+2 : Nat) : Int) ≥ (pr.size : Int) := by omega
        simp only [c1, c2, if_false, r1, r2, r1', r2', Option.bind_eq_bind, Option.bind_some, hz, h1, h2,
          dite_true, zip2_getElem, wr_lt pr i _ hi, wr_lt ix i _ (show i < ix.size by omega)]
        split
        · split
          · exact stepc (2*i+1) (by omega) h1
          · exact stay
        · split
          · exact stepc (2*i+2) (by omega) h2
          · exact stay
      · have c2 : ((2*i+2 : Nat) : Int) ≥ (pr.size : Int) := by omega
        simp only [c1, c2, if_false, if_true, r1, r1', Option.bind_eq_bind, Option.bind_some, hz, h1, h2,
          dite_true, dite_false, zip2_getElem, wr_lt pr i _ hi, wr_lt ix i _ (show i < ix.size by omega)]
        split
        · exact stepc (2*i+1) (by omega) h1
        · exact stay
    · have c1 : ((2*i+1 : Nat) : Int) ≥ (pr.size : Int) := by omega
      simp only [c1, if_true, hz, h1, dite_false]
      exact stay
  ))

/-- **Hole loop, two arrays** (`simple_heap_push.loop0`).  Started with the hole at `i`, the translated
`while True:` loop stays in bounds, ends by `break` with the hole at some `i' < size`, and once the new
entry is written at `i'` the arrays are exactly the model's `sift`.  The arrays agree with the model's
row everywhere except at the hole, which `sift` never reads. -/
theorem simple_loop_spec (p : P) (n : Int) : ∀ (fuel : Nat) (pr : Array P) (ix : Array Int) (i : Nat),
    pr.size = ix.size → i < pr.size → pr.size ≤ fuel + i →
    ∃ pr' ix', ∃ i' : Nat,
      simple_heap_push.loop0 p (pr.size : Int) fuel pr ix (i : Int) = some (.next (pr', ix', (i' : Int)))
      ∧ pr'.size = pr.size ∧ ix'.size = pr.size ∧ i' < pr.size ∧
      zip2 (pr'.setIfInBounds i' p) (ix'.setIfInBounds i' n) = sift (zip2 pr ix) ⟨p, n, false⟩ i := by
  hole_loop2_tac simple_heap_push.loop0

/-- **Hole loop, two arrays** (`checked_heap_push.loop1`).  Started with the hole at `i`, the translated
`while True:` loop stays in bounds, ends by `break` with the hole at some `i' < size`, and once the new
entry is written at `i'` the arrays are exactly the model's `sift`.  The arrays agree with the model's
row everywhere except at the hole, which `sift` never reads. -/
theorem checked_loop_spec (p : P) (n : Int) : ∀ (fuel : Nat) (pr : Array P) (ix : Array Int) (i : Nat),
    pr.size = ix.size → i < pr.size → pr.size ≤ fuel + i →
    ∃ pr' ix', ∃ i' : Nat,
      checked_heap_push.loop1 p (pr.size : Int) fuel pr ix (i : Int) = some (.next (pr', ix', (i' : Int)))
      ∧ pr'.size = pr.size ∧ ix'.size = pr.size ∧ i' < pr.size ∧
      zip2 (pr'.setIfInBounds i' p) (ix'.setIfInBounds i' n) = sift (zip2 pr ix) ⟨p, n, false⟩ i := by
  hole_loop2_tac checked_heap_push.loop1

/-- **Hole loop, three arrays** (`checked_flagged_heap_push.loop1`): the flag byte moves with its entry. -/
theorem flagged_loop_spec (p : P) (n f : Int) :
    ∀ (fuel : Nat) (pr : Array P) (ix fl : Array Int) (i : Nat),
    pr.size = ix.size → pr.size = fl.size → i < pr.size → pr.size ≤ fuel + i →
    ∃ pr' ix' fl', ∃ i' : Nat,
      checked_flagged_heap_push.loop1 p (pr.size : Int) fuel pr ix fl (i : Int)
        = some (.next (pr', ix', fl', (i' : Int)))
      ∧ pr'.size = pr.size ∧ ix'.size = pr.size ∧ fl'.size = pr.size ∧ i' < pr.size ∧
      zip3 (pr'.setIfInBounds i' p) (ix'.setIfInBounds i' n) (fl'.setIfInBounds i' f)
        = sift (zip3 pr ix fl) ⟨p, n, f != 0⟩ i := by
  intro fuel
  induction fuel with
  | zero => intro pr ix fl i hs hs' hi hf; omega
  | succ fuel ih =>
    intro pr ix fl i hs hs' hi hf
    have e1 : (2:Int) * (i:Int) + 1 = ((2*i+1 : Nat) : Int) := by push_cast; rfl
    have e2 : ((2*i+1 : Nat) : Int) + 1 = ((2*i+2 : Nat) : Int) := by push_cast; omega
    -- other spellings of the child positions (harmless rewrites of the source keep the proof alive)
    have e1' : (i:Int) * 2 + 1 = ((2*i+1 : Nat) : Int) := by push_cast; omega
    have e2' : (2:Int) * (i:Int) + 2 = ((2*i+2 : Nat) : Int) := by push_cast; rfl
    have e2'' : (i:Int) * 2 + 2 = ((2*i+2 : Nat) : Int) := by push_cast; omega
    rw [sift]
    unfold checked_flagged_heap_push.loop1
    simp only [e1, e1', e2, e2', e2'']
    have hz : (zip3 pr ix fl).size = pr.size := by simp; omega
    have stepc : ∀ c : Nat, i < c → (hc : c < pr.size) → ∃ pr' ix' fl', ∃ i' : Nat,
        checked_flagged_heap_push.loop1 p (pr.size : Int) fuel (pr.setIfInBounds i pr[c])
            (ix.setIfInBounds i (ix[c]'(by omega))) (fl.setIfInBounds i (fl[c]'(by omega))) (c : Int)
          = some (.next (pr', ix', fl', (i' : Int)))
        ∧ pr'.size = pr.size ∧ ix'.size = pr.size ∧ fl'.size = pr.size ∧ i' < pr.size ∧
        zip3 (pr'.setIfInBounds i' p) (ix'.setIfInBounds i' n) (fl'.setIfInBounds i' f)
          = sift ((zip3 pr ix fl).setIfInBounds i ⟨pr[c], ix[c]'(by omega), fl[c]'(by omega) != 0⟩)
              ⟨p, n, f != 0⟩ c := by
      intro c hic hc
      have := ih (pr.setIfInBounds i pr[c]) (ix.setIfInBounds i (ix[c]'(by omega)))
        (fl.setIfInBounds i (fl[c]'(by omega))) c
        (by simp; omega) (by simp; omega) (by simp; omega) (by simp; omega)
      simpa only [Array.size_setIfInBounds, zip3_set] using this
    have stay : ∃ pr' ix' fl', ∃ i' : Nat,
        (pure (LoopOut.next (pr, ix, fl, (i : Int))) :
            Option (LoopOut (Array P × Array Int × Array Int × Int) (Array P × Array Int × Array Int × Int)))
          = some (.next (pr', ix', fl', (i' : Int)))
        ∧ pr'.size = pr.size ∧ ix'.size = pr.size ∧ fl'.size = pr.size ∧ i' < pr.size ∧
        zip3 (pr'.setIfInBounds i' p) (ix'.setIfInBounds i' n) (fl'.setIfInBounds i' f)
          = (zip3 pr ix fl).setIfInBounds i ⟨p, n, f != 0⟩ :=
      ⟨pr, ix, fl, i, rfl, rfl, by omega, by omega, hi, zip3_set ..⟩
    have wi := wr_lt pr i
    have wi' := wr_lt ix i
    have wi'' := wr_lt fl i
    by_cases h1 : 2 * i + 1 < pr.size
    · have r1 := rd_lt pr (2*i+1) h1
      have r1' := rd_lt ix (2*i+1) (by omega)
      have r1'' := rd_lt fl (2*i+1) (by omega)
      have c1 : ¬ ((2*i+1 : Nat) : Int) ≥ (pr.size : Int) := by omega
      by_cases h2 : 2 * i + 2 < pr.size
      · have r2 := rd_lt pr (2*i+2) h2
        have r2' := rd_lt ix (2*i+2) (by omega)
        have r2'' := rd_lt fl (2*i+2) (by omega)
        have c2 : ¬ ((2*i+2 : Nat) : Int) ≥ (pr.size : Int) := by omega
        simp only [c1, c2, if_false, r1, r2, r1', r2', r1'', r2'', Option.bind_eq_bind, Option.bind_some, hz, h1,
          h2, dite_true, zip3_getElem, wr_lt pr i _ hi, wr_lt ix i _ (show i < ix.size by omega),
          wr_lt fl i _ (show i < fl.size by omega)]
        split
        · split
          · exact stepc (2*i+1) (by omega) h1
          · exact stay
        · split
          · exact stepc (2*i+2) (by omega) h2
          · exact stay
      · have c2 : ((2*i+2 : Nat) : Int) ≥ (pr.size : Int) := by omega
        simp only [c1, c2, if_false, if_true, r1, r1', r1'', Option.bind_eq_bind, Option.bind_some, hz, h1, h2,
          dite_true, dite_false, zip3_getElem, wr_lt pr i _ hi, wr_lt ix i _ (show i < ix.size by omega),
          wr_lt fl i _ (show i < fl.size by omega)]
        split
        · exact stepc (2*i+1) (by omega) h1
        · exact stay
    · have c1 : ((2*i+1 : Nat) : Int) ≥ (pr.size : Int) := by omega
      simp only [c1, if_true, hz, h1, dite_false]
      exact stay

/-! ## The duplicate scan of the checked variants -/

/-- `for i in range(size): if n == indices[i]: return 0` (two-array kernel), started at `i`: stays in
bounds; returns `0` with the arrays untouched iff `n` occurs at some position `≥ i`, otherwise falls
through. -/
theorem checked_scan_spec (pr : Array P) (ix : Array Int) (n : Int) :
    ∀ (fuel : Nat) (i : Nat), i ≤ ix.size → ix.size + 1 ≤ fuel + i →
    (checked_heap_push.loop0 pr ix n (ix.size : Int) fuel (i : Int) = some (.ret (pr, ix, 0))
        ∧ ∃ k, ∃ hk : k < ix.size, i ≤ k ∧ ix[k] = n) ∨
    ((∃ i' : Int, checked_heap_push.loop0 pr ix n (ix.size : Int) fuel (i : Int) = some (.next i'))
        ∧ ∀ k, ∀ hk : k < ix.size, i ≤ k → ix[k] ≠ n) := by
  intro fuel
  induction fuel with
  | zero => intro i hi hf; omega
  | succ fuel ih =>
    intro i hi hf
    unfold checked_heap_push.loop0
    by_cases hlt : i < ix.size
    · have c : ((i : Nat) : Int) < (ix.size : Int) := by omega
      have e : ((i : Nat) : Int) + 1 = ((i + 1 : Nat) : Int) := by push_cast; rfl
      simp only [c, if_true, rd_lt ix i hlt, Option.bind_eq_bind, Option.bind_some, e]
      by_cases hn : n = ix[i]
      · simp only [hn, if_true]
        exact Or.inl ⟨rfl, i, hlt, Nat.le_refl _, rfl⟩
      · simp only [hn, if_false]
        rcases ih (i+1) (by omega) (by omega) with ⟨h1, k, hk, hik, hkn⟩ | ⟨h1, h2⟩
        · exact Or.inl ⟨h1, k, hk, by omega, hkn⟩
        · refine Or.inr ⟨h1, ?_⟩
          intro k hk hik
          by_cases hki : k = i
          · subst hki; exact fun h => hn h.symm
          · exact h2 k hk (by omega)
    · have c : ¬ ((i : Nat) : Int) < (ix.size : Int) := by omega
      simp only [c, if_false]
      exact Or.inr ⟨⟨_, rfl⟩, fun k hk hik => by omega⟩

/-- the same scan in the three-array kernel -/
theorem flagged_scan_spec (pr : Array P) (ix fl : Array Int) (n : Int) :
    ∀ (fuel : Nat) (i : Nat), i ≤ ix.size → ix.size + 1 ≤ fuel + i →
    (checked_flagged_heap_push.loop0 pr ix fl n (ix.size : Int) fuel (i : Int) = some (.ret (pr, ix, fl, 0))
        ∧ ∃ k, ∃ hk : k < ix.size, i ≤ k ∧ ix[k] = n) ∨
    ((∃ i' : Int, checked_flagged_heap_push.loop0 pr ix fl n (ix.size : Int) fuel (i : Int) = some (.next i'))
        ∧ ∀ k, ∀ hk : k < ix.size, i ≤ k → ix[k] ≠ n) := by
  intro fuel
  induction fuel with
  | zero => intro i hi hf; omega
  | succ fuel ih =>
    intro i hi hf
    unfold checked_flagged_heap_push.loop0
    by_cases hlt : i < ix.size
    · have c : ((i : Nat) : Int) < (ix.size : Int) := by omega
      have e : ((i : Nat) : Int) + 1 = ((i + 1 : Nat) : Int) := by push_cast; rfl
      simp only [c, if_true, rd_lt ix i hlt, Option.bind_eq_bind, Option.bind_some, e]
      by_cases hn : n = ix[i]
      · simp only [hn, if_true]
        exact Or.inl ⟨rfl, i, hlt, Nat.le_refl _, rfl⟩
      · simp only [hn, if_false]
        rcases ih (i+1) (by omega) (by omega) with ⟨h1, k, hk, hik, hkn⟩ | ⟨h1, h2⟩
        · exact Or.inl ⟨h1, k, hk, by omega, hkn⟩
        · refine Or.inr ⟨h1, ?_⟩
          intro k hk hik
          by_cases hki : k = i
          · subst hki; exact fun h => hn h.symm
          · exact h2 k hk (by omega)
    · have c : ¬ ((i : Nat) : Int) < (ix.size : Int) := by omega
      simp only [c, if_false]
      exact Or.inr ⟨⟨_, rfl⟩, fun k hk hik => by omega⟩

/-- the model's duplicate scan on a zipped row looks at the index array only -/
theorem zip2_any_idx (pr : Array P) (ix : Array Int) (n : Int) (hs : pr.size = ix.size) :
    (zip2 pr ix).any (fun e => e.idx == n) = true ↔ ∃ k, ∃ hk : k < ix.size, ix[k] = n := by
  rw [Array.any_eq_true']
  constructor
  · rintro ⟨e, he, hen⟩
    obtain ⟨k, hk, rfl⟩ := Array.mem_iff_getElem.mp he
    have hk' : k < ix.size := by simp at hk; omega
    exact ⟨k, hk', by simpa using hen⟩
  · rintro ⟨k, hk, rfl⟩
    have hk' : k < (zip2 pr ix).size := by simp; omega
    exact ⟨(zip2 pr ix)[k], Array.getElem_mem hk', by simp⟩

theorem zip3_any_idx (pr : Array P) (ix fl : Array Int) (n : Int) (hs : pr.size = ix.size)
    (hs' : pr.size = fl.size) :
    (zip3 pr ix fl).any (fun e => e.idx == n) = true ↔ ∃ k, ∃ hk : k < ix.size, ix[k] = n := by
  rw [Array.any_eq_true']
  constructor
  · rintro ⟨e, he, hen⟩
    obtain ⟨k, hk, rfl⟩ := Array.mem_iff_getElem.mp he
    have hk' : k < ix.size := by simp at hk; omega
    exact ⟨k, hk', by simpa using hen⟩
  · rintro ⟨k, hk, rfl⟩
    have hk' : k < (zip3 pr ix fl).size := by simp; omega
    exact ⟨(zip3 pr ix fl)[k], Array.getElem_mem hk', by simp⟩

/-! ## The push kernels -/

/-- **`simple_heap_push` refines `push false`.**  On a non-empty row stored in two equal-sized arrays,
with `fuel ≥ size + 1`, the translated kernel terminates without leaving the arrays, and its result is
the model's: same row (sizes preserved), return value `1` iff the model accepts. -/
theorem simple_heap_push_refines (pr : Array P) (ix : Array Int) (p : P) (n : Int) (fuel : Nat)
    (hs : pr.size = ix.size) (hk : 0 < pr.size) (hf : pr.size + 1 ≤ fuel) :
    ∃ pr' ix', GenK.simple_heap_push fuel pr ix p n
        = some (pr', ix', if (push false (zip2 pr ix) p n false).2 then 1 else 0)
      ∧ pr'.size = pr.size ∧ ix'.size = ix.size
      ∧ zip2 pr' ix' = (push false (zip2 pr ix) p n false).1 := by
  have hz : (zip2 pr ix).size = pr.size := by simp; omega
  have hk' : 0 < (zip2 pr ix).size := by omega
  unfold GenK.simple_heap_push push
  simp only [rd_zero pr hk, Option.bind_eq_bind, Option.bind_some, hk', dite_true, zip2_getElem,
    Bool.false_and, Bool.false_eq_true, if_false]
  by_cases hge : p ≥ pr[0]
  · simp only [hge, if_true]
    exact ⟨pr, ix, rfl, rfl, rfl, rfl⟩
  · simp only [hge, if_false, wr_zero pr p hk, wr_zero ix n (show 0 < ix.size by omega), Option.bind_some]
    obtain ⟨pr', ix', i', hl, h1, h2, h3, h4⟩ :=
      simple_loop_spec p n fuel (pr.setIfInBounds 0 p) (ix.setIfInBounds 0 n) 0
        (by simp; omega) (by simpa using hk) (by simp; omega)
    simp only [Array.size_setIfInBounds, Int.natCast_zero] at hl h1 h2 h3
    rw [zip2_set pr ix 0 p n, sift_set_hole] at h4
    rw [hl]
    simp only [Option.bind_some, wr_lt pr' i' p (by omega), wr_lt ix' i' n (by omega)]
    exact ⟨_, _, rfl, by simp [h1], by simp [h2]; omega, h4⟩

/-- **`checked_heap_push` refines `push true … false`** (duplicate scan over the whole row, then the
same hole sift). -/
theorem checked_heap_push_refines (pr : Array P) (ix : Array Int) (p : P) (n : Int) (fuel : Nat)
    (hs : pr.size = ix.size) (hk : 0 < pr.size) (hf : pr.size + 1 ≤ fuel) :
    ∃ pr' ix', GenK.checked_heap_push fuel pr ix p n
        = some (pr', ix', if (push true (zip2 pr ix) p n false).2 then 1 else 0)
      ∧ pr'.size = pr.size ∧ ix'.size = ix.size
      ∧ zip2 pr' ix' = (push true (zip2 pr ix) p n false).1 := by
  have hz : (zip2 pr ix).size = pr.size := by simp; omega
  have hk' : 0 < (zip2 pr ix).size := by omega
  have hc : (ix.size : Int) = (pr.size : Int) := by omega
  unfold GenK.checked_heap_push push
  simp only [rd_zero pr hk, Option.bind_eq_bind, Option.bind_some, hk', dite_true, zip2_getElem,
    Bool.true_and]
  by_cases hge : p ≥ pr[0]
  · simp only [hge, if_true]
    exact ⟨pr, ix, rfl, rfl, rfl, rfl⟩
  · simp only [hge, if_false]
    rcases checked_scan_spec pr ix n fuel 0 (by omega) (by omega) with ⟨h1, k, hkk, _, hkn⟩ | ⟨⟨i0, h1⟩, h2⟩
    · rw [hc] at h1
      have hany : (zip2 pr ix).any (fun e => e.idx == n) = true :=
        (zip2_any_idx pr ix n hs).mpr ⟨k, hkk, hkn⟩
      simp only [Int.natCast_zero] at h1
      simp only [h1, Option.bind_some, hany, if_true]
      exact ⟨pr, ix, rfl, rfl, rfl, rfl⟩
    · rw [hc] at h1
      have hany : ¬ (zip2 pr ix).any (fun e => e.idx == n) = true := by
        rw [zip2_any_idx pr ix n hs]
        rintro ⟨k, hkk, hkn⟩
        exact h2 k hkk (by omega) hkn
      simp only [Int.natCast_zero] at h1
      simp only [h1, Option.bind_some, hany, if_false, wr_zero pr p hk,
        wr_zero ix n (show 0 < ix.size by omega)]
      obtain ⟨pr', ix', i', hl, h1, h2, h3, h4⟩ :=
        checked_loop_spec p n fuel (pr.setIfInBounds 0 p) (ix.setIfInBounds 0 n) 0
          (by simp; omega) (by simpa using hk) (by simp; omega)
      simp only [Array.size_setIfInBounds, Int.natCast_zero] at hl h1 h2 h3
      rw [zip2_set pr ix 0 p n, sift_set_hole] at h4
      rw [hl]
      simp only [Option.bind_some, wr_lt pr' i' p (by omega), wr_lt ix' i' n (by omega)]
      exact ⟨_, _, rfl, by simp [h1], by simp [h2]; omega, h4⟩

/-- **`checked_flagged_heap_push` refines `push true`** on three arrays: the flag byte `f` travels with
the entry as the model's Boolean `f ≠ 0`. -/
theorem checked_flagged_heap_push_refines (pr : Array P) (ix fl : Array Int) (p : P) (n f : Int)
    (fuel : Nat) (hs : pr.size = ix.size) (hs' : pr.size = fl.size) (hk : 0 < pr.size)
    (hf : pr.size + 1 ≤ fuel) :
    ∃ pr' ix' fl', GenK.checked_flagged_heap_push fuel pr ix fl p n f
        = some (pr', ix', fl', if (push true (zip3 pr ix fl) p n (f != 0)).2 then 1 else 0)
      ∧ pr'.size = pr.size ∧ ix'.size = ix.size ∧ fl'.size = fl.size
      ∧ zip3 pr' ix' fl' = (push true (zip3 pr ix fl) p n (f != 0)).1 := by
  have hz : (zip3 pr ix fl).size = pr.size := by simp; omega
  have hk' : 0 < (zip3 pr ix fl).size := by omega
  have hc : (ix.size : Int) = (pr.size : Int) := by omega
  unfold GenK.checked_flagged_heap_push push
  simp only [rd_zero pr hk, Option.bind_eq_bind, Option.bind_some, hk', dite_true, zip3_getElem,
    Bool.true_and]
  by_cases hge : p ≥ pr[0]
  · simp only [hge, if_true]
    exact ⟨pr, ix, fl, rfl, rfl, rfl, rfl, rfl⟩
  · simp only [hge, if_false]
    rcases flagged_scan_spec pr ix fl n fuel 0 (by omega) (by omega) with
      ⟨h1, k, hkk, _, hkn⟩ | ⟨⟨i0, h1⟩, h2⟩
    · rw [hc] at h1
      have hany : (zip3 pr ix fl).any (fun e => e.idx == n) = true :=
        (zip3_any_idx pr ix fl n hs hs').mpr ⟨k, hkk, hkn⟩
      simp only [Int.natCast_zero] at h1
      simp only [h1, Option.bind_some, hany, if_true]
      exact ⟨pr, ix, fl, rfl, rfl, rfl, rfl, rfl⟩
    · rw [hc] at h1
      have hany : ¬ (zip3 pr ix fl).any (fun e => e.idx == n) = true := by
        rw [zip3_any_idx pr ix fl n hs hs']
        rintro ⟨k, hkk, hkn⟩
        exact h2 k hkk (by omega) hkn
      simp only [Int.natCast_zero] at h1
      simp only [h1, Option.bind_some, hany, if_false, wr_zero pr p hk,
        wr_zero ix n (show 0 < ix.size by omega), wr_zero fl f (show 0 < fl.size by omega)]
      obtain ⟨pr', ix', fl', i', hl, h1, h2, h2', h3, h4⟩ :=
        flagged_loop_spec p n f fuel (pr.setIfInBounds 0 p) (ix.setIfInBounds 0 n) (fl.setIfInBounds 0 f) 0
          (by simp; omega) (by simp; omega) (by simpa using hk) (by simp; omega)
      simp only [Array.size_setIfInBounds, Int.natCast_zero] at hl h1 h2 h2' h3
      rw [zip3_set pr ix fl 0 p n f, sift_set_hole] at h4
      rw [hl]
      simp only [Option.bind_some, wr_lt pr' i' p (by omega), wr_lt ix' i' n (by omega),
        wr_lt fl' i' f (by omega)]
      exact ⟨_, _, _, rfl, by simp [h1], by simp [h2]; omega, by simp [h2']; omega, h4⟩

/-! ## `siftdown` (swap based) = `siftdownSwap` -/

theorem swap_eq_set_set {α} (a : Array α) (i j : Nat) (hi : i < a.size) (hj : j < a.size) :
    (a.setIfInBounds i a[j]).setIfInBounds j a[i] = a.swap i j hi hj := by
  apply Array.ext
  · simp
  · intro k h1 h2
    simp only [Array.size_setIfInBounds] at h1
    grind

theorem zip2_swap (pr : Array P) (ix : Array Int) (e c : Nat) (hs : pr.size = ix.size)
    (he : e < pr.size) (hc : c < pr.size) :
    zip2 ((pr.setIfInBounds e pr[c]).setIfInBounds c pr[e])
         ((ix.setIfInBounds e (ix[c]'(by omega))).setIfInBounds c (ix[e]'(by omega)))
      = (zip2 pr ix).swap e c (by simp; omega) (by simp; omega) := by
  rw [zip2_set, zip2_set, ← swap_eq_set_set]
  simp

/-- **Swap loop** (`siftdown.loop0`): stays in bounds, ends by `break`, arrays = `siftdownSwap` over the
whole row. -/
theorem siftdown_loop_spec : ∀ (fuel : Nat) (h1 : Array P) (h2 : Array Int) (elt : Nat),
    h1.size = h2.size → h1.size - elt < fuel →
    ∃ e' h1' h2', siftdown.loop0 fuel (elt : Int) h1 h2 = some (.next (e', h1', h2'))
      ∧ h1'.size = h1.size ∧ h2'.size = h2.size
      ∧ zip2 h1' h2' = siftdownSwap (zip2 h1 h2) h1.size elt := by
  intro fuel
  induction fuel with
  | zero => intro h1 h2 elt hs hf; omega
  | succ fuel ih =>
    intro h1 h2 elt hs hf
    have e1 : (elt:Int) * 2 + 1 = ((2*elt+1 : Nat) : Int) := by push_cast; omega
    have e2 : ((2*elt+1 : Nat) : Int) + 1 = ((2*elt+2 : Nat) : Int) := by push_cast; omega
    have e1' : (2:Int) * (elt:Int) + 1 = ((2*elt+1 : Nat) : Int) := by push_cast; rfl
    have e2' : (2:Int) * (elt:Int) + 2 = ((2*elt+2 : Nat) : Int) := by push_cast; rfl
    have e2'' : (elt:Int) * 2 + 2 = ((2*elt+2 : Nat) : Int) := by push_cast; omega
    have ne1 : ¬ ((2*elt+1 : Nat) : Int) = (elt : Int) := by omega
    have ne2 : ¬ ((2*elt+2 : Nat) : Int) = (elt : Int) := by omega
    have hz : (zip2 h1 h2).size = h1.size := by simp; omega
    rw [siftdownSwap]
    unfold siftdown.loop0
    simp only [e1, e1', e2, e2', e2'']
    have stepc : ∀ c : Nat, (hec : elt < c) → (hc : c < h1.size) → ∃ e' h1' h2',
        siftdown.loop0 fuel (c : Int) ((h1.setIfInBounds elt h1[c]).setIfInBounds c (h1[elt]'(by omega)))
            ((h2.setIfInBounds elt (h2[c]'(by omega))).setIfInBounds c (h2[elt]'(by omega)))
          = some (.next (e', h1', h2'))
        ∧ h1'.size = h1.size ∧ h2'.size = h2.size
        ∧ zip2 h1' h2' = siftdownSwap ((zip2 h1 h2).swap elt c (by simp; omega) (by simp; omega)) h1.size c := by
      intro c hec hc
      have := ih ((h1.setIfInBounds elt h1[c]).setIfInBounds c (h1[elt]'(by omega)))
        ((h2.setIfInBounds elt (h2[c]'(by omega))).setIfInBounds c (h2[elt]'(by omega))) c
        (by simp; omega) (by simp; omega)
      simpa only [Array.size_setIfInBounds, zip2_swap h1 h2 elt c hs (by omega) hc] using this
    have stay : ∃ e' h1' h2',
        (pure (LoopOut.next ((elt : Int), h1, h2)) : Option (LoopOut (Int × Array P × Array Int) (Array P × Array Int)))
          = some (.next (e', h1', h2'))
        ∧ h1'.size = h1.size ∧ h2'.size = h2.size ∧ zip2 h1' h2' = zip2 h1 h2 :=
      ⟨_, h1, h2, rfl, rfl, rfl, rfl⟩
    by_cases hl : 2 * elt + 1 < h1.size
    · have he : elt < h1.size := by omega
      have c1 : ((2*elt+1 : Nat) : Int) < (h1.size : Int) := by omega
      have r0 := rd_lt h1 elt he
      have r0' := rd_lt h2 elt (by omega)
      have r1 := rd_lt h1 (2*elt+1) hl
      have r1' := rd_lt h2 (2*elt+1) (by omega)
      have w0 := fun v => wr_lt h1 elt v he
      have w0' := fun v => wr_lt h2 elt v (show elt < h2.size by omega)
      have w1 := fun u v => wr_lt (h1.setIfInBounds elt u) (2*elt+1) v (by simpa using hl)
      have w1' := fun u v => wr_lt (h2.setIfInBounds elt u) (2*elt+1) v (by simp; omega)
      by_cases hr : 2 * elt + 2 < h1.size
      · have c2 : ((2*elt+2 : Nat) : Int) < (h1.size : Int) := by omega
        have r2 := rd_lt h1 (2*elt+2) hr
        have r2' := rd_lt h2 (2*elt+2) (by omega)
        have w2 := fun u v => wr_lt (h1.setIfInBounds elt u) (2*elt+2) v (by simpa using hr)
        have w2' := fun u v => wr_lt (h2.setIfInBounds elt u) (2*elt+2) v (by simp; omega)
        simp only [c1, c2, if_true, r0, r0', r1, r1', r2, r2', w0, w0', w1, w1', w2, w2', ne1, ne2, if_false,
          Option.bind_eq_bind, Option.bind_some, hz, hl, hr, Nat.le_refl, and_self, dite_true, zip2_getElem,
          eq_self]
        split
        · split
          · exact stepc (2*elt+2) (by omega) hr
          · exact stepc (2*elt+1) (by omega) hl
        · split
          · exact stepc (2*elt+2) (by omega) hr
          · exact stay
      · have c2 : ¬ ((2*elt+2 : Nat) : Int) < (h1.size : Int) := by omega
        simp only [c1, c2, if_true, r0, r0', r1, r1', w0, w0', w1, w1', ne1, ne2, if_false,
          Option.bind_eq_bind, Option.bind_some, hz, hl, hr, Nat.le_refl, and_self, dite_true, dite_false,
          zip2_getElem, eq_self]
        split
        · exact stepc (2*elt+1) (by omega) hl
        · exact stay
    · have c1 : ¬ ((2*elt+1 : Nat) : Int) < (h1.size : Int) := by omega
      simp only [c1, if_false, hz, hl, false_and, dite_false]
      exact stay

/-- **`siftdown` refines `siftdownSwap`** over the whole row, for any start position `elt ≥ 0`. -/
theorem siftdown_refines (h1 : Array P) (h2 : Array Int) (elt : Int) (fuel : Nat)
    (hs : h1.size = h2.size) (he : 0 ≤ elt) (hf : h1.size + 1 ≤ fuel) :
    ∃ h1' h2', GenK.siftdown fuel h1 h2 elt = some (h1', h2')
      ∧ h1'.size = h1.size ∧ h2'.size = h2.size
      ∧ zip2 h1' h2' = siftdownSwap (zip2 h1 h2) h1.size elt.toNat := by
  obtain ⟨e', h1', h2', hl, a1, a2, a3⟩ := siftdown_loop_spec fuel h1 h2 elt.toNat hs (by omega)
  rw [Int.toNat_of_nonneg he] at hl
  unfold GenK.siftdown
  simp only [hl, Option.bind_eq_bind, Option.bind_some]
  exact ⟨h1', h2', rfl, a1, a2, a3⟩

/-! ## Memory safety, and the precondition it rests on -/

/-- `simple_heap_push`: in bounds and terminating on every non-empty row. -/
theorem simple_heap_push_safe (pr : Array P) (ix : Array Int) (p : P) (n : Int) (fuel : Nat)
    (hs : pr.size = ix.size) (hk : 0 < pr.size) (hf : pr.size + 1 ≤ fuel) :
    GenK.simple_heap_push fuel pr ix p n ≠ none := by
  obtain ⟨_, _, h, _⟩ := simple_heap_push_refines pr ix p n fuel hs hk hf
  rw [h]; exact nofun

theorem checked_heap_push_safe (pr : Array P) (ix : Array Int) (p : P) (n : Int) (fuel : Nat)
    (hs : pr.size = ix.size) (hk : 0 < pr.size) (hf : pr.size + 1 ≤ fuel) :
    GenK.checked_heap_push fuel pr ix p n ≠ none := by
  obtain ⟨_, _, h, _⟩ := checked_heap_push_refines pr ix p n fuel hs hk hf
  rw [h]; exact nofun

theorem checked_flagged_heap_push_safe (pr : Array P) (ix fl : Array Int) (p : P) (n f : Int) (fuel : Nat)
    (hs : pr.size = ix.size) (hs' : pr.size = fl.size) (hk : 0 < pr.size) (hf : pr.size + 1 ≤ fuel) :
    GenK.checked_flagged_heap_push fuel pr ix fl p n f ≠ none := by
  obtain ⟨_, _, _, h, _⟩ := checked_flagged_heap_push_refines pr ix fl p n f fuel hs hs' hk hf
  rw [h]; exact nofun

theorem siftdown_safe (h1 : Array P) (h2 : Array Int) (elt : Int) (fuel : Nat)
    (hs : h1.size = h2.size) (he : 0 ≤ elt) (hf : h1.size + 1 ≤ fuel) :
    GenK.siftdown fuel h1 h2 elt ≠ none := by
  obtain ⟨_, _, h, _⟩ := siftdown_refines h1 h2 elt fuel hs he hf
  rw [h]; exact nofun

/-- On an **empty** row every push kernel reads `priorities[0]` out of bounds: the callers'
`n_neighbors ≥ 1` / `k ≥ 1` is a genuine precondition of the kernels (the model answers "rejected"). -/
theorem simple_heap_push_empty (pr : Array P) (ix : Array Int) (p : P) (n : Int) (fuel : Nat)
    (h0 : pr.size = 0) : GenK.simple_heap_push fuel pr ix p n = none := by
  unfold GenK.simple_heap_push
  simp [rd_empty pr h0]

theorem checked_heap_push_empty (pr : Array P) (ix : Array Int) (p : P) (n : Int) (fuel : Nat)
    (h0 : pr.size = 0) : GenK.checked_heap_push fuel pr ix p n = none := by
  unfold GenK.checked_heap_push
  simp [rd_empty pr h0]

theorem checked_flagged_heap_push_empty (pr : Array P) (ix fl : Array Int) (p : P) (n f : Int) (fuel : Nat)
    (h0 : pr.size = 0) : GenK.checked_flagged_heap_push fuel pr ix fl p n f = none := by
  unfold GenK.checked_flagged_heap_push
  simp [rd_empty pr h0]

/-- without fuel nothing runs: the fuel bound in the theorems above is not vacuous slack -/
theorem siftdown_no_fuel (h1 : Array P) (h2 : Array Int) (elt : Int) :
    GenK.siftdown 0 h1 h2 elt = none := by
  simp [GenK.siftdown, siftdown.loop0]

/-! ## Offer sequences through the translated `checked_heap_push` -/

/-- `make_heap`'s arrays zip to the model's empty row -/
theorem zip2_replicate (top : P) (k : Nat) :
    zip2 (Array.replicate k top) (Array.replicate k (-1 : Int)) = mkRow top k := by
  apply Array.ext
  · simp [mkRow]
  · intro j h1 h2
    simp [mkRow]

theorem mem_zip2 (pr : Array P) (ix : Array Int) (hs : pr.size = ix.size) (e : Entry P) :
    e ∈ zip2 pr ix ↔ ∃ j, ∃ hj : j < pr.size, e = ⟨pr[j], ix[j]'(by omega), false⟩ := by
  rw [Array.mem_iff_getElem]
  constructor
  · rintro ⟨j, hj, rfl⟩
    exact ⟨j, by simp at hj; omega, by simp⟩
  · rintro ⟨j, hj, rfl⟩
    exact ⟨j, by simp; omega, by simp⟩

/-- Feed the candidates `offers` (candidate `n` at distance `d n`) one after the other through the
**translated** `checked_heap_push`, threading the two arrays; `none` as soon as one call leaves an array
or runs out of fuel. -/
def kernelRun (fuel : Nat) (d : Nat → P) : List Nat → Array P → Array Int → Option (Array P × Array Int)
  | [], pr, ix => some (pr, ix)
  | n :: rest, pr, ix =>
    match GenK.checked_heap_push fuel pr ix (d n) (n : Int) with
    | some (pr', ix', _) => kernelRun fuel d rest pr' ix'
    | none => none

/-- every call in such a sequence is in bounds, and the final arrays are the model's row -/
theorem kernelRun_refines (fuel : Nat) (d : Nat → P) : ∀ (offers : List Nat) (pr : Array P) (ix : Array Int),
    pr.size = ix.size → 0 < pr.size → pr.size + 1 ≤ fuel →
    ∃ pr' ix', kernelRun fuel d offers pr ix = some (pr', ix') ∧ pr'.size = pr.size ∧ ix'.size = ix.size ∧
      zip2 pr' ix' = (offers.map (fun n => (n, false))).foldl
        (fun h o => (push true h (d o.1) o.1 o.2).1) (zip2 pr ix) := by
  intro offers
  induction offers with
  | nil => intro pr ix _ _ _; exact ⟨pr, ix, rfl, rfl, rfl, rfl⟩
  | cons n rest ih =>
    intro pr ix hs hk hf
    obtain ⟨pr1, ix1, h1, s1, s2, hz⟩ := checked_heap_push_refines pr ix (d n) n fuel hs hk hf
    obtain ⟨pr2, ix2, h2, t1, t2, hz2⟩ := ih pr1 ix1 (by omega) (by omega) (by omega)
    refine ⟨pr2, ix2, ?_, by omega, by omega, ?_⟩
    · simp only [kernelRun, h1, h2]
    · simp only [List.map_cons, List.foldl_cons, hz2, hz]

/-! ## … and through `checked_flagged_heap_push` / `simple_heap_push` -/

theorem zip3_replicate (top : P) (k : Nat) :
    zip3 (Array.replicate k top) (Array.replicate k (-1 : Int)) (Array.replicate k (0 : Int)) = mkRow top k := by
  apply Array.ext
  · simp [mkRow]
  · intro j h1 h2
    simp [mkRow]

theorem mem_zip3 (pr : Array P) (ix fl : Array Int) (hs : pr.size = ix.size) (hs' : pr.size = fl.size)
    (e : Entry P) :
    e ∈ zip3 pr ix fl ↔
      ∃ j, ∃ hj : j < pr.size, e = ⟨pr[j], ix[j]'(by omega), fl[j]'(by omega) != 0⟩ := by
  rw [Array.mem_iff_getElem]
  constructor
  · rintro ⟨j, hj, rfl⟩
    exact ⟨j, by simp at hj; omega, by simp⟩
  · rintro ⟨j, hj, rfl⟩
    exact ⟨j, by simp; omega, by simp⟩

/-- offers `(candidate, new?)` through the translated `checked_flagged_heap_push` (flag byte `1`/`0`),
threading the three arrays -/
def kernelRunFlagged (fuel : Nat) (d : Nat → P) :
    List (Nat × Bool) → Array P → Array Int → Array Int → Option (Array P × Array Int × Array Int)
  | [], pr, ix, fl => some (pr, ix, fl)
  | o :: rest, pr, ix, fl =>
    match GenK.checked_flagged_heap_push fuel pr ix fl (d o.1) (o.1 : Int) (if o.2 then 1 else 0) with
    | some (pr', ix', fl', _) => kernelRunFlagged fuel d rest pr' ix' fl'
    | none => none

theorem kernelRunFlagged_refines (fuel : Nat) (d : Nat → P) :
    ∀ (offers : List (Nat × Bool)) (pr : Array P) (ix fl : Array Int),
    pr.size = ix.size → pr.size = fl.size → 0 < pr.size → pr.size + 1 ≤ fuel →
    ∃ pr' ix' fl', kernelRunFlagged fuel d offers pr ix fl = some (pr', ix', fl') ∧
      pr'.size = pr.size ∧ ix'.size = ix.size ∧ fl'.size = fl.size ∧
      zip3 pr' ix' fl' = offers.foldl (fun h o => (push true h (d o.1) o.1 o.2).1) (zip3 pr ix fl) := by
  intro offers
  induction offers with
  | nil => intro pr ix fl _ _ _ _; exact ⟨pr, ix, fl, rfl, rfl, rfl, rfl, rfl⟩
  | cons o rest ih =>
    intro pr ix fl hs hs' hk hf
    obtain ⟨pr1, ix1, fl1, h1, s1, s2, s3, hz⟩ :=
      checked_flagged_heap_push_refines pr ix fl (d o.1) o.1 (if o.2 then 1 else 0) fuel hs hs' hk hf
    have hb : ((if o.2 then 1 else 0 : Int) != 0) = o.2 := by cases o.2 <;> rfl
    rw [hb] at hz
    obtain ⟨pr2, ix2, fl2, h2, t1, t2, t3, hz2⟩ := ih pr1 ix1 fl1 (by omega) (by omega) (by omega) (by omega)
    refine ⟨pr2, ix2, fl2, ?_, by omega, by omega, by omega, ?_⟩
    · simp only [kernelRunFlagged, h1, h2]
    · simp only [List.foldl_cons, hz2, hz]

/-- offers through the translated `simple_heap_push` -/
def kernelRunSimple (fuel : Nat) (d : Nat → P) : List Nat → Array P → Array Int → Option (Array P × Array Int)
  | [], pr, ix => some (pr, ix)
  | n :: rest, pr, ix =>
    match GenK.simple_heap_push fuel pr ix (d n) (n : Int) with
    | some (pr', ix', _) => kernelRunSimple fuel d rest pr' ix'
    | none => none

theorem kernelRunSimple_refines (fuel : Nat) (d : Nat → P) :
    ∀ (offers : List Nat) (pr : Array P) (ix : Array Int),
    pr.size = ix.size → 0 < pr.size → pr.size + 1 ≤ fuel →
    ∃ pr' ix', kernelRunSimple fuel d offers pr ix = some (pr', ix') ∧ pr'.size = pr.size ∧ ix'.size = ix.size ∧
      zip2 pr' ix' = (offers.map (fun n => (n, false))).foldl
        (fun h o => (push false h (d o.1) o.1 o.2).1) (zip2 pr ix) := by
  intro offers
  induction offers with
  | nil => intro pr ix _ _ _; exact ⟨pr, ix, rfl, rfl, rfl, rfl⟩
  | cons n rest ih =>
    intro pr ix hs hk hf
    obtain ⟨pr1, ix1, h1, s1, s2, hz⟩ := simple_heap_push_refines pr ix (d n) n fuel hs hk hf
    obtain ⟨pr2, ix2, h2, t1, t2, hz2⟩ := ih pr1 ix1 (by omega) (by omega) (by omega)
    refine ⟨pr2, ix2, ?_, by omega, by omega, ?_⟩
    · simp only [kernelRunSimple, h1, h2]
    · simp only [List.map_cons, List.foldl_cons, hz2, hz]

/-! ## `deheap_sort`: the translated `siftdown` on the prefix views `heap[:j]`

`deheap_sort` itself (a `prange` over the rows of two 2-D arrays) is outside the translated subset; its
per-row loop `for j in range(k-1, 0, -1): swap slots 0 and j; siftdown(dist[i, :j], ind[i, :j], 0)` is
written out by hand below (`kernelDeheapLoop`: a view `a[:j]` is the prefix, the stores go through to
the row), with the **generated** `siftdown` as its body. -/

theorem swap_append_left {α} (pre suf : Array α) (i j : Nat) (hi : i < pre.size) (hj : j < pre.size) :
    (pre ++ suf).swap i j (by simp; omega) (by simp; omega) = pre.swap i j hi hj ++ suf := by
  apply Array.ext
  · simp
  · intro k h1 h2
    simp only [Array.size_swap, Array.size_append] at h1
    grind

theorem siftdownSwap_size (a : Row P) (n elt : Nat) : (siftdownSwap a n elt).size = a.size := by
  fun_induction siftdownSwap a n elt <;> simp_all

/-- `siftdown` on a prefix view: `siftdownSwap` bounded by `n` only looks at and only moves the first `n`
slots. -/
theorem siftdownSwap_append (pre suf : Row P) (n elt : Nat) (hn : n = pre.size) :
    siftdownSwap (pre ++ suf) n elt = siftdownSwap pre n elt ++ suf := by
  fun_induction siftdownSwap pre n elt
  case case1 a elt h hr c1 c2 ih =>
    have h' : 2 * elt + 1 < n ∧ n ≤ (a ++ suf).size := ⟨h.1, by simp; omega⟩
    have g0 : (a ++ suf)[elt]'(by simp; omega) = a[elt]'(by omega) := Array.getElem_append_left (by omega)
    have g1 : (a ++ suf)[2*elt+1]'(by simp; omega) = a[2*elt+1]'(by omega) := Array.getElem_append_left (by omega)
    have g2 : (a ++ suf)[2*elt+2]'(by simp; omega) = a[2*elt+2]'(by omega) := Array.getElem_append_left (by omega)
    rw [siftdownSwap]
    simp only [h', hr, and_self, dite_true, g0, g1, g2, c1, c2, if_true]
    rw [← ih (by simp; omega), swap_append_left]
  case case2 a elt h hr c1 c2 ih =>
    have h' : 2 * elt + 1 < n ∧ n ≤ (a ++ suf).size := ⟨h.1, by simp; omega⟩
    have g0 : (a ++ suf)[elt]'(by simp; omega) = a[elt]'(by omega) := Array.getElem_append_left (by omega)
    have g1 : (a ++ suf)[2*elt+1]'(by simp; omega) = a[2*elt+1]'(by omega) := Array.getElem_append_left (by omega)
    have g2 : (a ++ suf)[2*elt+2]'(by simp; omega) = a[2*elt+2]'(by omega) := Array.getElem_append_left (by omega)
    rw [siftdownSwap]
    simp only [h', hr, and_self, dite_true, g0, g1, g2, c1, c2, if_true, if_false]
    rw [← ih (by simp; omega), swap_append_left]
  case case3 a elt h hr c1 c2 ih =>
    have h' : 2 * elt + 1 < n ∧ n ≤ (a ++ suf).size := ⟨h.1, by simp; omega⟩
    have g0 : (a ++ suf)[elt]'(by simp; omega) = a[elt]'(by omega) := Array.getElem_append_left (by omega)
    have g1 : (a ++ suf)[2*elt+1]'(by simp; omega) = a[2*elt+1]'(by omega) := Array.getElem_append_left (by omega)
    have g2 : (a ++ suf)[2*elt+2]'(by simp; omega) = a[2*elt+2]'(by omega) := Array.getElem_append_left (by omega)
    rw [siftdownSwap]
    simp only [h', hr, and_self, dite_true, g0, g1, g2, c1, c2, if_true, if_false]
    rw [← ih (by simp; omega), swap_append_left]
  case case4 a elt h hr c1 c2 =>
    have h' : 2 * elt + 1 < n ∧ n ≤ (a ++ suf).size := ⟨h.1, by simp; omega⟩
    have g0 : (a ++ suf)[elt]'(by simp; omega) = a[elt]'(by omega) := Array.getElem_append_left (by omega)
    have g1 : (a ++ suf)[2*elt+1]'(by simp; omega) = a[2*elt+1]'(by omega) := Array.getElem_append_left (by omega)
    have g2 : (a ++ suf)[2*elt+2]'(by simp; omega) = a[2*elt+2]'(by omega) := Array.getElem_append_left (by omega)
    rw [siftdownSwap]
    simp only [h', hr, and_self, dite_true, g0, g1, g2, c1, c2, if_true, if_false]
  case case5 a elt h hr c1 ih =>
    have h' : 2 * elt + 1 < n ∧ n ≤ (a ++ suf).size := ⟨h.1, by simp; omega⟩
    have g0 : (a ++ suf)[elt]'(by simp; omega) = a[elt]'(by omega) := Array.getElem_append_left (by omega)
    have g1 : (a ++ suf)[2*elt+1]'(by simp; omega) = a[2*elt+1]'(by omega) := Array.getElem_append_left (by omega)
    rw [siftdownSwap]
    simp only [h', hr, and_self, dite_true, dite_false, g0, g1, c1, if_true, if_false]
    rw [← ih (by simp; omega), swap_append_left]
  case case6 a elt h hr c1 =>
    have h' : 2 * elt + 1 < n ∧ n ≤ (a ++ suf).size := ⟨h.1, by simp; omega⟩
    have g0 : (a ++ suf)[elt]'(by simp; omega) = a[elt]'(by omega) := Array.getElem_append_left (by omega)
    have g1 : (a ++ suf)[2*elt+1]'(by simp; omega) = a[2*elt+1]'(by omega) := Array.getElem_append_left (by omega)
    rw [siftdownSwap]
    simp only [h', hr, and_self, dite_true, dite_false, g0, g1, c1, if_true, if_false]
  case case7 a elt h =>
    rw [siftdownSwap]
    have h' : ¬ (2 * elt + 1 < n ∧ n ≤ (a ++ suf).size) := by
      intro hh; apply h; exact ⟨hh.1, by omega⟩
    simp only [h', dite_false]

theorem zip2_swap' (pr : Array P) (ix : Array Int) (i j : Nat) (hi : i < pr.size) (hj : j < pr.size)
    (hi' : i < ix.size) (hj' : j < ix.size) :
    zip2 (pr.swap i j hi hj) (ix.swap i j hi' hj') = (zip2 pr ix).swap i j (by simp; omega) (by simp; omega) := by
  apply Array.ext
  · simp
  · intro k h1 h2
    simp only [zip2_size, Array.size_swap] at h1
    simp only [zip2_getElem]
    grind [zip2_getElem]

theorem zip2_append (a s : Array P) (b t : Array Int) (h : a.size = b.size) :
    zip2 (a ++ s) (b ++ t) = zip2 a b ++ zip2 s t := by
  simp [zip2, Array.zipWith_append, h]

/-- one row of `deheap_sort` from position `j` downwards, with the translated `siftdown` run on the
prefix views (`none` if it ever leaves its arrays or runs out of fuel) -/
def kernelDeheapLoop (fuel : Nat) : Nat → Array P → Array Int → Option (Array P × Array Int)
  | 0, pr, ix => some (pr, ix)
  | j+1, pr, ix =>
    if h : j + 1 < pr.size ∧ j + 1 < ix.size then
      let pr1 := pr.swap 0 (j+1) (by omega) h.1
      let ix1 := ix.swap 0 (j+1) (by omega) h.2
      match GenK.siftdown fuel (pr1.extract 0 (j+1)) (ix1.extract 0 (j+1)) 0 with
      | some (a, b) =>
        kernelDeheapLoop fuel j (a ++ pr1.extract (j+1) pr1.size) (b ++ ix1.extract (j+1) ix1.size)
      | none => none
    else some (pr, ix)

/-- `deheap_sort` on one row stored in two arrays -/
def kernelDeheapSort (fuel : Nat) (pr : Array P) (ix : Array Int) : Option (Array P × Array Int) :=
  kernelDeheapLoop fuel (pr.size - 1) pr ix

theorem kernelDeheapLoop_refines (fuel : Nat) : ∀ (j : Nat) (pr : Array P) (ix : Array Int),
    pr.size = ix.size → pr.size + 1 ≤ fuel →
    ∃ pr' ix', kernelDeheapLoop fuel j pr ix = some (pr', ix') ∧ pr'.size = pr.size ∧ ix'.size = ix.size ∧
      zip2 pr' ix' = deheapLoop (zip2 pr ix) j := by
  intro j
  induction j with
  | zero => intro pr ix _ _; exact ⟨pr, ix, rfl, rfl, rfl, rfl⟩
  | succ j ih =>
    intro pr ix hs hf
    have hz : (zip2 pr ix).size = pr.size := by simp; omega
    by_cases hj : j + 1 < pr.size
    · have hc : j + 1 < pr.size ∧ j + 1 < ix.size := ⟨hj, by omega⟩
      have hj' : j + 1 < (zip2 pr ix).size := by omega
      simp only [kernelDeheapLoop, hc, and_self, dite_true, deheapLoop, hj']
      -- the swapped row, split into the prefix view and the rest
      obtain ⟨pr1, hpr1⟩ : ∃ x, x = pr.swap 0 (j+1) (by omega) hc.1 := ⟨_, rfl⟩
      obtain ⟨ix1, hix1⟩ : ∃ x, x = ix.swap 0 (j+1) (by omega) hc.2 := ⟨_, rfl⟩
      have hsw : zip2 pr1 ix1 = (zip2 pr ix).swap 0 (j+1) (by omega) hj' := by
        rw [hpr1, hix1]; exact zip2_swap' pr ix 0 (j+1) (by omega) hj (by omega) (by omega)
      have s1 : pr1.size = pr.size := by rw [hpr1]; simp
      have s2 : ix1.size = ix.size := by rw [hix1]; simp
      rw [← hpr1, ← hix1, ← hsw]
      have e1 : pr1 = pr1.extract 0 (j+1) ++ pr1.extract (j+1) pr1.size := by
        rw [Array.extract_append_extract, Nat.max_eq_right (by omega), Nat.min_eq_left (by omega)]; simp
      have e2 : ix1 = ix1.extract 0 (j+1) ++ ix1.extract (j+1) ix1.size := by
        rw [Array.extract_append_extract, Nat.max_eq_right (by omega), Nat.min_eq_left (by omega)]; simp
      have p1 : (pr1.extract 0 (j+1)).size = j + 1 := by simp; omega
      have p2 : (ix1.extract 0 (j+1)).size = j + 1 := by simp; omega
      obtain ⟨a, b, hk, a1, a2, a3⟩ := siftdown_refines (pr1.extract 0 (j+1)) (ix1.extract 0 (j+1)) 0 fuel
        (by omega) (by omega) (by omega)
      rw [hk]
      simp only
      obtain ⟨pr', ix', hr, b1, b2, b3⟩ := ih (a ++ pr1.extract (j+1) pr1.size) (b ++ ix1.extract (j+1) ix1.size)
        (by simp only [Array.size_append, Array.size_extract]; omega)
        (by simp only [Array.size_append, Array.size_extract]; omega)
      refine ⟨pr', ix', hr, ?_, ?_, ?_⟩
      · rw [b1]; simp only [Array.size_append, Array.size_extract]; omega
      · rw [b2]; simp only [Array.size_append, Array.size_extract]; omega
      · rw [b3, zip2_append _ _ _ _ (by omega), a3, p1]
        have : (0 : Int).toNat = 0 := rfl
        rw [this, ← siftdownSwap_append _ _ _ _ (by simp; omega), ← zip2_append _ _ _ _ (by omega), ← e1, ← e2]
    · have hc : ¬ (j + 1 < pr.size ∧ j + 1 < ix.size) := fun h => hj h.1
      have hj' : ¬ j + 1 < (zip2 pr ix).size := by omega
      simp only [kernelDeheapLoop, hc, dite_false, deheapLoop, hj']
      exact ⟨pr, ix, rfl, rfl, rfl, rfl⟩

/-- **`deheap_sort` on one row, with the translated `siftdown`, is the model's `deheapSort`.** -/
theorem kernelDeheapSort_refines (fuel : Nat) (pr : Array P) (ix : Array Int)
    (hs : pr.size = ix.size) (hf : pr.size + 1 ≤ fuel) :
    ∃ pr' ix', kernelDeheapSort fuel pr ix = some (pr', ix') ∧ pr'.size = pr.size ∧ ix'.size = ix.size ∧
      zip2 pr' ix' = deheapSort (zip2 pr ix) := by
  have hz : (zip2 pr ix).size = pr.size := by simp; omega
  unfold kernelDeheapSort deheapSort
  rw [hz]
  exact kernelDeheapLoop_refines fuel _ pr ix hs hf

end Pynn
