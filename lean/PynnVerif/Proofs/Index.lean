import PynnVerif.Model.Index
import Mathlib.Data.List.Perm.Subperm
import Mathlib.Data.List.Nodup

/-!
# Proofs about the life-cycle model (`Model/Index.lean`, property C04)

1. `permute` / `argsort` / `isPerm`: `xs[p][argsort p] = xs` for a permutation `p`;
2. `InvP`, the propositional reading of the Boolean invariant `Inv`;
3. `step` preserves `Inv` whenever the vertex orders it *consults* are permutations (`OpOk`);
4. the logical dataset after a history is the independently defined `spec`.
-/
namespace Pynn.Idx

/-! ## permutations -/

theorem isPerm_iff {p : List Nat} {n : Nat} :
    isPerm p n = true ↔ p.length = n ∧ ∀ i, i < n → i ∈ p := by
  simp [isPerm, List.all_eq_true]

theorem isPerm_perm {p : List Nat} {n : Nat} (h : isPerm p n = true) : (List.range n).Perm p := by
  obtain ⟨hl, hm⟩ := isPerm_iff.1 h
  apply List.Subperm.perm_of_length_le
  · apply List.Nodup.subperm List.nodup_range
    intro i hi; exact hm i (List.mem_range.1 hi)
  · simp [hl]

theorem isPerm_nodup {p : List Nat} {n : Nat} (h : isPerm p n = true) : p.Nodup :=
  (isPerm_perm h).nodup_iff.1 List.nodup_range

theorem isPerm_lt {p : List Nat} {n : Nat} (h : isPerm p n = true) : ∀ i ∈ p, i < n := fun _ hi =>
  List.mem_range.1 ((isPerm_perm h).mem_iff.2 hi)

theorem isPerm_length {p : List Nat} {n : Nat} (h : isPerm p n = true) : p.length = n :=
  (isPerm_iff.1 h).1

theorem isPerm_mem {p : List Nat} {n : Nat} (h : isPerm p n = true) {i : Nat} (hi : i < n) : i ∈ p :=
  (isPerm_iff.1 h).2 i hi

variable {α β : Type}

theorem getElem?_permute (xs : List α) (p : List Nat) (h : ∀ i ∈ p, i < xs.length) (k : Nat) :
    (permute xs p)[k]? = p[k]?.bind (fun i => xs[i]?) := by
  induction p generalizing k with
  | nil => simp [permute]
  | cons a p ih =>
    have ha : a < xs.length := h a (by simp)
    have : permute xs (a :: p) = xs[a] :: permute xs p := by
      simp [permute, List.getElem?_eq_getElem ha]
    rw [this]
    cases k with
    | zero => simp [List.getElem?_eq_getElem ha]
    | succ k => simpa using ih (fun i hi => h i (by simp [hi])) k

theorem permute_length_of_lt (xs : List α) (p : List Nat) (h : ∀ i ∈ p, i < xs.length) :
    (permute xs p).length = p.length := by
  induction p with
  | nil => simp [permute]
  | cons a p ih =>
    have ha : a < xs.length := h a (by simp)
    have : permute xs (a :: p) = xs[a] :: permute xs p := by
      simp [permute, List.getElem?_eq_getElem ha]
    rw [this]; simp [ih (fun i hi => h i (by simp [hi]))]

theorem permute_length (xs : List α) (p : List Nat) (h : isPerm p xs.length = true) :
    (permute xs p).length = xs.length := by
  rw [permute_length_of_lt xs p (isPerm_lt h), isPerm_length h]

theorem permute_range (xs : List α) : permute xs (List.range xs.length) = xs := by
  apply List.ext_getElem?
  intro k
  rw [getElem?_permute _ _ (fun i hi => List.mem_range.1 hi)]
  by_cases hk : k < xs.length
  · simp [hk]
  · simp [hk]

theorem permute_perm (xs : List α) (p : List Nat) (h : isPerm p xs.length = true) :
    (permute xs p).Perm xs := by
  have := ((isPerm_perm h).filterMap (fun i => xs[i]?)).symm
  rwa [show List.filterMap (fun i => xs[i]?) (List.range xs.length) = xs from permute_range xs] at this

theorem argsort_length (p : List Nat) : (argsort p).length = p.length := by simp [argsort]

theorem argsort_isPerm {p : List Nat} {n : Nat} (h : isPerm p n = true) : isPerm (argsort p) n = true := by
  have hl := isPerm_length h
  rw [isPerm_iff]
  refine ⟨by simp [argsort, hl], fun i hi => ?_⟩
  have hi' : i < p.length := by omega
  have hlt := isPerm_lt h p[i] (List.getElem_mem hi')
  simp only [argsort, List.mem_map, List.mem_range]
  exact ⟨p[i], by omega, (isPerm_nodup h).idxOf_getElem i hi'⟩

theorem perm_roundtrip (xs : List α) (p : List Nat) (h : isPerm p xs.length = true) :
    permute (permute xs p) (argsort p) = xs := by
  have hl := isPerm_length h
  have hlen := permute_length xs p h
  have ha := argsort_isPerm h
  apply List.ext_getElem?
  intro k
  rw [getElem?_permute _ _ (by rw [hlen]; exact isPerm_lt ha)]
  by_cases hk : k < xs.length
  · have hmem : k ∈ p := isPerm_mem h hk
    have hidx : p.idxOf k < p.length := List.idxOf_lt_length_iff.2 hmem
    have : (argsort p)[k]? = some (p.idxOf k) := by
      simp [argsort, hl, hk]
    rw [this]
    simp only [Option.bind_some]
    rw [getElem?_permute _ _ (isPerm_lt h), List.getElem?_eq_getElem hidx]
    simp [List.getElem_idxOf hidx]
  · have : (argsort p)[k]? = none := by
      apply List.getElem?_eq_none; rw [argsort_length, hl]; omega
    rw [this, List.getElem?_eq_none (Nat.le_of_not_lt hk)]; rfl


/-! ## `Inv` as a proposition -/

theorem all_zipIdx_iff {l : List α} {f : α × Nat → Bool} :
    l.zipIdx.all f = true ↔ ∀ (i : Nat) (a : α), l[i]? = some a → f (a, i) = true := by
  rw [List.all_eq_true]
  constructor
  · intro h i a hi
    apply h
    rw [List.mem_iff_getElem?]
    exact ⟨i, by simp [List.getElem?_zipIdx, hi]⟩
  · rintro h ⟨a, i⟩ hm
    rw [List.mem_iff_getElem?] at hm
    obtain ⟨j, hj⟩ := hm
    simp only [List.getElem?_zipIdx, Option.map_eq_some_iff] at hj
    obtain ⟨a', ha', he⟩ := hj
    cases he
    simpa using h j a ha'

theorem all_zip_iff {l₁ : List α} {l₂ : List β} {f : α × β → Bool} :
    (l₁.zip l₂).all f = true ↔ ∀ (i : Nat) (a : α) (b : β), l₁[i]? = some a → l₂[i]? = some b → f (a, b) = true := by
  rw [List.all_eq_true]
  constructor
  · intro h i a b ha hb
    apply h
    rw [List.mem_iff_getElem?]
    exact ⟨i, List.getElem?_zip_eq_some.2 ⟨ha, hb⟩⟩
  · rintro h ⟨a, b⟩ hm
    rw [List.mem_iff_getElem?] at hm
    obtain ⟨j, hj⟩ := hm
    obtain ⟨ha, hb⟩ := List.getElem?_zip_eq_some.1 hj
    exact h j a b ha hb

/-- identities are row numbers -/
def IdsOk (L : List Pt) : Prop := ∀ (i : Nat) (p : Pt), L[i]? = some p → p.id = i

/-- the graph part of the invariant -/
def GraphOk (L : List Pt) (compressed : Bool) (graph : Option (List GRow)) : Prop :=
  (∀ g, graph = some g → compressed = false ∧ g.length = L.length ∧
      ∀ (i : Nat) (row : GRow) (p : Pt), g[i]? = some row → L[i]? = some p → row.owner = p ∧ ∀ q ∈ row.nbrs, q ∈ L) ∧
  (graph = none → compressed = true)

/-- `Inv` as a proposition -/
structure InvP (s : St) : Prop where
  ids : IdsOk s.logical
  raw_some : ∀ v, s.vo = some v → isPerm v s.logical.length = true ∧ s.raw = permute s.logical v
  raw_none : s.vo = none → s.raw = s.logical
  graph : GraphOk s.logical s.compressed s.graph
  search_some : ∀ r, s.searchRows = some r → r = s.raw ∧ s.vo.isSome = true
  search_none : s.searchRows = none → s.vo = none

theorem inv_iff (s : St) : Inv s = true ↔ InvP s := by
  simp only [Inv, Bool.and_eq_true]
  constructor
  · rintro ⟨⟨⟨h1, h2⟩, h3⟩, h4⟩
    refine ⟨?_, ?_, ?_, (⟨?_, ?_⟩ : GraphOk _ _ _), ?_, ?_⟩
    · intro i p hp; simpa using all_zipIdx_iff.1 h1 i p hp
    · intro v hv; rw [hv] at h2; simpa using h2
    · intro hv; rw [hv] at h2; simpa using h2
    · intro g hg; rw [hg] at h3
      simp only [Bool.and_eq_true, Bool.not_eq_true', beq_iff_eq] at h3
      refine ⟨h3.1.1, h3.1.2, fun i row p hr hp => ?_⟩
      have := all_zip_iff.1 h3.2 i row p hr hp
      simpa [List.all_eq_true] using this
    · intro hg; rw [hg] at h3; simpa using h3
    · intro r hr; rw [hr] at h4; simpa using h4
    · intro hr; rw [hr] at h4; simpa using h4
  · intro h
    refine ⟨⟨⟨?_, ?_⟩, ?_⟩, ?_⟩
    · rw [all_zipIdx_iff]; intro i p hp; simpa using h.ids i p hp
    · cases hv : s.vo with
      | none => simpa using h.raw_none hv
      | some v => simpa using h.raw_some v hv
    · cases hg : s.graph with
      | none => simpa using h.graph.2 hg
      | some g =>
        obtain ⟨hc, hl, hrows⟩ := h.graph.1 g hg
        simp only [Bool.and_eq_true, Bool.not_eq_true', beq_iff_eq]
        refine ⟨⟨hc, hl⟩, ?_⟩
        rw [all_zip_iff]; intro i row p hr hp
        simpa [List.all_eq_true] using hrows i row p hr hp
    · cases hr : s.searchRows with
      | none => simpa using h.search_none hr
      | some r => simpa using h.search_some r hr


/-! ## the pieces of `update`, named -/

def bumpPt (p : Pt) : Pt := { p with ver := p.ver + 1 }

def updRestored (s : St) : List Pt :=
  match s.vo with
  | some v => permute s.raw (argsort v)
  | none => s.raw

def updFresh (n nFresh : Nat) : List Pt := (List.range nFresh).map (fun i => (⟨n + i, 0⟩ : Pt))

def updKept (replaced : List Nat) (g : List GRow) : List GRow :=
  (g.zipIdx).map (fun (row, i) =>
    if replaced.contains i then ⟨{ row.owner with ver := row.owner.ver + 1 }, []⟩
    else ⟨row.owner, row.nbrs.filter (fun q => !replaced.contains q.id)⟩)

def updGraph (found : List (List Nat)) (data : List Pt) (seeded : List GRow) : List GRow :=
  (seeded.zipIdx).map (fun (row, i) =>
    ⟨row.owner, row.nbrs ++ ((found[i]?.getD []).filterMap (fun j => data[j]?))⟩)

def updState (s : St) (g : List GRow) (nFresh : Nat) (replaced : List Nat) (found : List (List Nat)) : St :=
  let restored := updRestored s
  let fresh := updFresh restored.length nFresh
  let data := bump replaced restored ++ fresh
  { s with logical := bump replaced s.logical ++ fresh, raw := data,
           graph := some (updGraph found data (updKept replaced g ++ fresh.map (fun p => ⟨p, []⟩))) }

theorem step_update_none {s : St} (hg : s.graph = none) (nFresh : Nat) (replaced : List Nat)
    (found : List (List Nat)) (vo : List Nat) :
    step s (.update nFresh replaced found vo) = (s, .err "ValueError:compressed") := by
  simp only [step, hg]

theorem step_update_oor {s : St} {g : List GRow} (hg : s.graph = some g) (nFresh : Nat) {replaced : List Nat}
    (hr : replaced.any (fun i => i ≥ s.logical.length) = true)
    (found : List (List Nat)) (vo : List Nat) :
    step s (.update nFresh replaced found vo) = (s, .err "ValueError:index-range") := by
  simp only [step, hg, hr, if_true]

theorem step_update_ok {s : St} {g : List GRow} (hg : s.graph = some g) (nFresh : Nat) {replaced : List Nat}
    (hr : replaced.any (fun i => i ≥ s.logical.length) = false)
    (found : List (List Nat)) (vo : List Nat) :
    step s (.update nFresh replaced found vo) =
      match s.searchRows with
      | some _ => (doPrepare { updState s g nFresh replaced found with searchRows := none } vo, .ok)
      | none => (updState s g nFresh replaced found, .ok) := by
  simp only [step, hg, hr]
  rfl


/-! ## preservation -/

theorem getElem?_bump (r : List Nat) (L : List Pt) (i : Nat) :
    (bump r L)[i]? = L[i]?.map (fun p => if r.contains i then bumpPt p else p) := by
  simp only [bump, List.getElem?_map, List.getElem?_zipIdx, Option.map_map]
  cases L[i]? <;> simp [bumpPt]

theorem bump_length (r : List Nat) (L : List Pt) : (bump r L).length = L.length := by
  simp [bump]

theorem updFresh_length (n k : Nat) : (updFresh n k).length = k := by simp [updFresh]

theorem getElem?_updFresh (n k j : Nat) :
    (updFresh n k)[j]? = if j < k then some ⟨n + j, 0⟩ else none := by
  simp only [updFresh, List.getElem?_map]
  by_cases h : j < k
  · simp [h]
  · simp [h]

theorem restored_eq {s : St} (h : InvP s) : updRestored s = s.logical := by
  unfold updRestored
  cases hv : s.vo with
  | none => exact h.raw_none hv
  | some v =>
    obtain ⟨hp, hr⟩ := h.raw_some v hv
    simp only [hr]
    exact perm_roundtrip _ _ hp

theorem ids_update {L : List Pt} (hL : IdsOk L) (r : List Nat) (k : Nat) :
    IdsOk (bump r L ++ updFresh L.length k) := by
  intro i p hp
  by_cases hi : i < L.length
  · rw [List.getElem?_append_left (by rw [bump_length]; exact hi), getElem?_bump] at hp
    obtain ⟨p0, hp0, he⟩ := Option.map_eq_some_iff.1 hp
    have := hL i p0 hp0
    subst he
    split <;> simp [bumpPt, this]
  · rw [List.getElem?_append_right (by rw [bump_length]; omega), bump_length, getElem?_updFresh] at hp
    split at hp
    · cases hp; simp; omega
    · cases hp

theorem mem_update_of_mem {L : List Pt} (hL : IdsOk L) (r : List Nat) (k : Nat) {q : Pt}
    (hq : q ∈ L) (hr : r.contains q.id = false) : q ∈ bump r L ++ updFresh L.length k := by
  obtain ⟨j, hj⟩ := List.mem_iff_getElem?.1 hq
  have hid := hL j q hj
  apply List.mem_append_left
  rw [List.mem_iff_getElem?]
  refine ⟨j, ?_⟩
  rw [getElem?_bump, hj, ← hid, hr]; rfl

theorem graph_update {L : List Pt} {c : Bool} {g : List GRow} (hL : IdsOk L)
    (hG : GraphOk L c (some g)) (r : List Nat) (k : Nat) (found : List (List Nat)) :
    GraphOk (bump r L ++ updFresh L.length k) c
      (some (updGraph found (bump r L ++ updFresh L.length k)
        (updKept r g ++ (updFresh L.length k).map (fun p => ⟨p, []⟩)))) := by
  obtain ⟨hc, hlen, hrows⟩ := hG.1 g rfl
  refine ⟨?_, fun h => by cases h⟩
  intro g' hg'
  cases hg'
  have hkl : (updKept r g).length = L.length := by simp [updKept, hlen]
  refine ⟨hc, by simp [updGraph, updKept, hlen, bump_length], ?_⟩
  intro i row p hrow hp
  simp only [updGraph, List.getElem?_map, List.getElem?_zipIdx, Option.map_map] at hrow
  obtain ⟨srow, hs, he⟩ := Option.map_eq_some_iff.1 hrow
  subst he
  simp only [Function.comp, Nat.zero_add]
  -- neighbours NN-descent adds are rows of the current data
  have hfound : ∀ q ∈ (found[i]?.getD []).filterMap (fun j => (bump r L ++ updFresh L.length k)[j]?),
      q ∈ bump r L ++ updFresh L.length k := by
    intro q hq
    obtain ⟨j, _, hj⟩ := List.mem_filterMap.1 hq
    exact List.mem_iff_getElem?.2 ⟨j, hj⟩
  by_cases hi : i < L.length
  · rw [List.getElem?_append_left (by rw [hkl]; exact hi)] at hs
    rw [List.getElem?_append_left (by rw [bump_length]; exact hi), getElem?_bump] at hp
    obtain ⟨p0, hp0, he⟩ := Option.map_eq_some_iff.1 hp
    simp only [updKept, List.getElem?_map, List.getElem?_zipIdx, Option.map_map] at hs
    obtain ⟨grow, hgrow, he'⟩ := Option.map_eq_some_iff.1 hs
    obtain ⟨hown, hn⟩ := hrows i grow p0 hgrow hp0
    subst he he'
    simp only [Function.comp, Nat.zero_add]
    cases hri : r.contains i with
    | true =>
      simp only [if_true]
      refine ⟨by simp [bumpPt, hown], ?_⟩
      intro q hq
      simp only [List.nil_append] at hq
      exact hfound q hq
    | false =>
      simp only [Bool.false_eq_true, if_false]
      refine ⟨hown, ?_⟩
      intro q hq
      rcases List.mem_append.1 hq with hq | hq
      · obtain ⟨hq1, hq2⟩ := List.mem_filter.1 hq
        exact mem_update_of_mem hL r k (hn q hq1) (by simpa using hq2)
      · exact hfound q hq
  · rw [List.getElem?_append_right (by rw [hkl]; omega), hkl, List.getElem?_map] at hs
    rw [List.getElem?_append_right (by rw [bump_length]; omega), bump_length] at hp
    rw [hp] at hs
    cases hs
    refine ⟨rfl, ?_⟩
    intro q hq
    simp only [List.nil_append] at hq
    exact hfound q hq

theorem graphOk_prepare {L : List Pt} {c : Bool} {G : Option (List GRow)} (h : GraphOk L c G) :
    GraphOk L c (if c then none else G) := by
  cases c with
  | true => exact ⟨fun g hg => by simp at hg, fun _ => rfl⟩
  | false => simpa using h

/-- a prepare that really happens, on a state whose stored rows are in caller order -/
theorem doPrepare_fresh (t : St) (vo : List Nat) (hs : t.searchRows = none) (hraw : t.raw = t.logical)
    (hids : IdsOk t.logical) (hG : GraphOk t.logical t.compressed t.graph)
    (hp : isPerm vo t.logical.length = true) : InvP (doPrepare t vo) := by
  simp only [doPrepare, hs]
  exact
    { ids := hids
      raw_some := by intro v hv; cases hv; exact ⟨hp, by simp [hraw]⟩
      raw_none := by intro hv; cases hv
      graph := graphOk_prepare hG
      search_some := by intro r hr; cases hr; exact ⟨rfl, rfl⟩
      search_none := by intro hr; cases hr }

theorem doPrepare_inv {s : St} (h : InvP s) (vo : List Nat)
    (hp : s.searchRows = none → isPerm vo s.logical.length = true) : InvP (doPrepare s vo) := by
  cases hs : s.searchRows with
  | some r => simpa [doPrepare, hs] using h
  | none => exact doPrepare_fresh s vo hs (h.raw_none (h.search_none hs)) h.ids h.graph (hp hs)


/-! ## oracle side-conditions -/

/-- The vertex order an operation *consults* is a permutation of the row numbers the (re)prepare sees.
`prepare` / `pickle` / `compress` consult `vo` only when no search structure exists yet; `update` consults
it only when it is not refused (graph present, replaced indices in range) and a search structure existed
(then the index is re-prepared over `logical.length + nFresh` rows).  Nothing is required of an order
that is never looked at, of `replaced` (out of range is the `ValueError:index-range` outcome) or of `found`. -/
def OpOk (s : St) : Op → Prop
  | .prepare vo | .pickle vo | .compress vo => s.searchRows = none → isPerm vo s.logical.length = true
  | .query => True
  | .update nFresh replaced _ vo =>
      s.graph ≠ none → (∀ i ∈ replaced, i < s.logical.length) → s.searchRows ≠ none →
        isPerm vo (s.logical.length + nFresh) = true

/-- the unconditional form: every supplied order is a permutation of the right size -/
def OpPerm (s : St) : Op → Prop
  | .prepare vo | .pickle vo | .compress vo => isPerm vo s.logical.length = true
  | .query => True
  | .update nFresh _ _ vo => isPerm vo (s.logical.length + nFresh) = true

theorem opOk_of_opPerm {s : St} {op : Op} (h : OpPerm s op) : OpOk s op := by
  cases op <;> simp_all [OpOk, OpPerm]

/-- the oracles of a whole history are OK, each at the state it is applied to -/
def OpsOk : St → List Op → Prop
  | _, [] => True
  | s, op :: ops => OpOk s op ∧ OpsOk (step s op).1 ops

theorem any_ge_false_iff {replaced : List Nat} {n : Nat} :
    replaced.any (fun i => i ≥ n) = false ↔ ∀ i ∈ replaced, i < n := by
  simp [List.any_eq_false]

theorem updState_eq {s : St} (h : InvP s) (g : List GRow) (k : Nat) (r : List Nat) (found : List (List Nat)) :
    updState s g k r found =
      { s with logical := bump r s.logical ++ updFresh s.logical.length k,
               raw := bump r s.logical ++ updFresh s.logical.length k,
               graph := some (updGraph found (bump r s.logical ++ updFresh s.logical.length k)
                  (updKept r g ++ (updFresh s.logical.length k).map (fun p => ⟨p, []⟩))) } := by
  simp only [updState, restored_eq h]

theorem step_invP {s : St} (h : InvP s) {op : Op} (hop : OpOk s op) : InvP (step s op).1 := by
  cases op with
  | prepare vo => exact doPrepare_inv h vo hop
  | query => exact h
  | pickle vo => exact doPrepare_inv h vo hop
  | compress vo =>
    have h' := doPrepare_inv h vo hop
    exact
      { ids := h'.ids, raw_some := h'.raw_some, raw_none := h'.raw_none
        graph := ⟨fun g hg => (by cases hg), fun _ => rfl⟩
        search_some := h'.search_some, search_none := h'.search_none }
  | update k r found vo =>
    cases hg : s.graph with
    | none => rw [step_update_none hg]; exact h
    | some g =>
      cases hr : r.any (fun i => i ≥ s.logical.length) with
      | true => rw [step_update_oor hg k hr]; exact h
      | false =>
        rw [step_update_ok hg k hr, updState_eq h]
        have hG := graph_update h.ids (hg ▸ h.graph) r k found
        cases hs : s.searchRows with
        | none =>
          have hv := h.search_none hs
          exact
            { ids := ids_update h.ids r k
              raw_some := by intro v hv'; simp [hv] at hv'
              raw_none := fun _ => rfl
              graph := hG
              search_some := by intro r' hr'; simp at hr'
              search_none := fun _ => hv }
        | some sr =>
          dsimp only
          apply doPrepare_fresh _ vo rfl rfl (ids_update h.ids r k) hG
          have := hop (by simp [hg]) (any_ge_false_iff.1 hr) (by simp [hs])
          simpa [bump_length, updFresh_length] using this

theorem ids_range (n : Nat) : IdsOk ((List.range n).map (fun i => (⟨i, 0⟩ : Pt))) := by
  intro i p hp
  simp only [List.getElem?_map] at hp
  obtain ⟨j, hj, he⟩ := Option.map_eq_some_iff.1 hp
  by_cases hi : i < n
  · rw [List.getElem?_range hi] at hj; cases hj; subst he; rfl
  · rw [List.getElem?_eq_none (by simpa using Nat.le_of_not_lt hi)] at hj; cases hj

theorem buildGraph_ok (pts : List Pt) (found : List (List Nat)) :
    GraphOk pts false (some ((pts.zipIdx).map (fun (p, i) =>
      (⟨p, ((found[i]?.getD []).filterMap (fun j => pts[j]?))⟩ : GRow)))) := by
  refine ⟨?_, fun hg => by cases hg⟩
  intro g hg
  cases hg
  refine ⟨rfl, by simp, ?_⟩
  intro i row p hrow hp
  simp only [List.getElem?_map, List.getElem?_zipIdx, hp, Option.map_some] at hrow
  cases hrow
  refine ⟨rfl, ?_⟩
  intro q hq
  obtain ⟨j, _, hj⟩ := List.mem_filterMap.1 hq
  exact List.mem_iff_getElem?.2 ⟨j, hj⟩

theorem build_invP (n : Nat) (found : List (List Nat)) : InvP (build n found) := by
  unfold build
  exact
    { ids := ids_range n
      raw_some := by intro v hv; cases hv
      raw_none := fun _ => rfl
      graph := buildGraph_ok _ found
      search_some := by intro r hr; cases hr
      search_none := fun _ => rfl }

/-! ## histories -/

theorem foldl_run_fst (ops : List Op) (s : St) (a b : List Out) :
    (ops.foldl (fun (acc : St × List Out) op => let r := step acc.1 op; (r.1, acc.2 ++ [r.2])) (s, a)).1 =
    (ops.foldl (fun (acc : St × List Out) op => let r := step acc.1 op; (r.1, acc.2 ++ [r.2])) (s, b)).1 := by
  induction ops generalizing s a b with
  | nil => rfl
  | cons op ops ih => simp only [List.foldl_cons]; exact ih _ _ _

theorem run_nil (s : St) : run s [] = (s, []) := rfl

theorem run_cons_fst (s : St) (op : Op) (ops : List Op) :
    (run s (op :: ops)).1 = (run (step s op).1 ops).1 := by
  simp only [run, List.foldl_cons]
  exact foldl_run_fst ops _ _ _

theorem run_invP {s : St} (h : InvP s) {ops : List Op} (hops : OpsOk s ops) : InvP (run s ops).1 := by
  induction ops generalizing s with
  | nil => exact h
  | cons op ops ih =>
    rw [run_cons_fst]
    exact ih (step_invP h hops.1) hops.2


/-! ## the logical dataset, specified independently of `step` -/

/-- a successful `update`: replaced rows get the next version *in place*, appended rows come last,
in the order given, with fresh identities -/
def specUpdate (nFresh : Nat) (replaced : List Nat) (pts : List Pt) : List Pt :=
  pts.mapIdx (fun i p => if i ∈ replaced then ⟨p.id, p.ver + 1⟩ else p) ++
  (List.range nFresh).map (fun j => ⟨pts.length + j, 0⟩)

/-- `compressed`: has `compress_index` been called earlier in the history?  Then every `update` fails
(`ValueError`); an `update` naming a row that does not exist fails too (`ValueError`); failed updates
change nothing; no other operation changes the logical dataset. -/
def specGo : Bool → List Op → List Pt → List Pt
  | _, [], pts => pts
  | _, .compress _ :: ops, pts => specGo true ops pts
  | c, .update nFresh replaced _ _ :: ops, pts =>
      if c = true ∨ ∃ i ∈ replaced, pts.length ≤ i then specGo c ops pts
      else specGo c ops (specUpdate nFresh replaced pts)
  | c, .prepare _ :: ops, pts => specGo c ops pts
  | c, .query :: ops, pts => specGo c ops pts
  | c, .pickle _ :: ops, pts => specGo c ops pts

/-- the logical dataset the property text prescribes after the history `ops`, starting from `pts` on
an index that is not compressed -/
def spec (ops : List Op) (pts : List Pt) : List Pt := specGo false ops pts

theorem specUpdate_eq (k : Nat) (r : List Nat) (L : List Pt) :
    specUpdate k r L = bump r L ++ updFresh L.length k := by
  simp only [specUpdate, bump, updFresh, List.mapIdx_eq_zipIdx_map]
  congr 1
  apply List.map_congr_left
  rintro ⟨p, i⟩ _
  by_cases hi : i ∈ r <;> simp [hi]

theorem doPrepare_logical (s : St) (vo : List Nat) : (doPrepare s vo).logical = s.logical := by
  unfold doPrepare; split <;> rfl

theorem doPrepare_graph_isNone {s : St} (h : InvP s) (vo : List Nat) :
    (doPrepare s vo).graph.isNone = s.graph.isNone := by
  unfold doPrepare
  split
  · rfl
  · cases hc : s.compressed with
    | false => simp
    | true =>
      cases hg : s.graph with
      | none => simp
      | some g => have := (h.graph.1 g hg).1; simp [hc] at this

theorem run_logical {s : St} (h : InvP s) {ops : List Op} (hops : OpsOk s ops) :
    (run s ops).1.logical = specGo s.graph.isNone ops s.logical := by
  induction ops generalizing s with
  | nil => rfl
  | cons op ops ih =>
    rw [run_cons_fst, ih (step_invP h hops.1) hops.2]
    cases op with
    | prepare vo => simp only [step, specGo, doPrepare_logical, doPrepare_graph_isNone h]
    | query => simp only [step, specGo]
    | pickle vo => simp only [step, specGo, doPrepare_logical, doPrepare_graph_isNone h]
    | compress vo => simp only [step, specGo, doPrepare_logical, Option.isNone_none]
    | update k r found vo =>
      cases hg : s.graph with
      | none => simp [step_update_none hg, specGo, hg]
      | some g =>
        cases hr : r.any (fun i => i ≥ s.logical.length) with
        | true =>
          have : ∃ i ∈ r, s.logical.length ≤ i := by simpa using hr
          simp [step_update_oor hg k hr, specGo, hg, this]
        | false =>
          have hlt := any_ge_false_iff.1 hr
          have hnot : ¬ ∃ i ∈ r, s.logical.length ≤ i := by
            rintro ⟨i, hi, hle⟩; exact absurd (hlt i hi) (by omega)
          have hc : s.compressed = false := (h.graph.1 g hg).1
          rw [step_update_ok hg k hr, updState_eq h]
          simp only [specGo, Option.isNone_some, Bool.false_eq_true, false_or, hnot, if_false,
            specUpdate_eq]
          cases hs : s.searchRows with
          | none => rfl
          | some sr => simp [doPrepare, hc]

/-! ## further consequences -/

theorem idsOk_nodup {L : List Pt} (hL : IdsOk L) : L.Nodup := by
  rw [List.nodup_iff_getElem?_ne_getElem?]
  intro i j hij hj he
  have hi : i < L.length := by omega
  have h1 := hL i L[i] (List.getElem?_eq_getElem hi)
  have h2 := hL j L[j] (List.getElem?_eq_getElem hj)
  rw [List.getElem?_eq_getElem hi, List.getElem?_eq_getElem hj] at he
  have he' : L[i] = L[j] := Option.some.inj he
  rw [he'] at h1
  omega

theorem mem_current {L : List Pt} (hL : IdsOk L) {q : Pt} (hq : q ∈ L) : L[q.id]? = some q := by
  obtain ⟨j, hj⟩ := List.mem_iff_getElem?.1 hq
  rw [hL j q hj]; exact hj

/-- for a logical dataset with distinct identities, the stored order is the caller order only for the
identity vertex order -/
theorem permute_eq_self_iff {L : List Pt} (hL : IdsOk L) {v : List Nat}
    (hp : isPerm v L.length = true) : permute L v = L ↔ v = List.range L.length := by
  constructor
  · intro h
    apply List.ext_getElem?
    intro k
    have hk := congrArg (fun l => l[k]?) h
    simp only [getElem?_permute L v (isPerm_lt hp)] at hk
    by_cases hlt : k < L.length
    · have hkv : k < v.length := by rw [isPerm_length hp]; exact hlt
      have hvk := isPerm_lt hp v[k] (List.getElem_mem hkv)
      rw [List.getElem?_eq_getElem hkv, Option.bind_some, List.getElem?_eq_getElem hvk,
        List.getElem?_eq_getElem hlt] at hk
      have h1 := hL v[k] L[v[k]] (List.getElem?_eq_getElem hvk)
      have h2 := hL k L[k] (List.getElem?_eq_getElem hlt)
      have : v[k] = k := by
        have := Option.some.inj hk
        rw [this] at h1; omega
      rw [List.getElem?_eq_getElem hkv, List.getElem?_range hlt, this]
    · rw [List.getElem?_eq_none (by rw [isPerm_length hp]; omega),
        List.getElem?_eq_none (by simp; omega)]
  · intro h; rw [h]; exact permute_range L

instance instDecidableOpOk (s : St) (op : Op) : Decidable (OpOk s op) :=
  match op with
  | .prepare vo => inferInstanceAs (Decidable (s.searchRows = none → isPerm vo s.logical.length = true))
  | .pickle vo => inferInstanceAs (Decidable (s.searchRows = none → isPerm vo s.logical.length = true))
  | .compress vo => inferInstanceAs (Decidable (s.searchRows = none → isPerm vo s.logical.length = true))
  | .query => inferInstanceAs (Decidable True)
  | .update nFresh replaced _ vo =>
    inferInstanceAs (Decidable (s.graph ≠ none → (∀ i ∈ replaced, i < s.logical.length) → s.searchRows ≠ none →
        isPerm vo (s.logical.length + nFresh) = true))

instance instDecidableOpsOk : (s : St) → (ops : List Op) → Decidable (OpsOk s ops)
  | _, [] => inferInstanceAs (Decidable True)
  | s, op :: ops =>
    have := instDecidableOpsOk (step s op).1 ops
    inferInstanceAs (Decidable (OpOk s op ∧ OpsOk (step s op).1 ops))

/-- the state after a successful `update`, written out -/
theorem update_result {s : St} (h : InvP s) {g : List GRow} (hg : s.graph = some g) (k : Nat)
    {r : List Nat} (hr : ∀ i ∈ r, i < s.logical.length) (found : List (List Nat)) (vo : List Nat) :
    let s' := (step s (.update k r found vo)).1
    (step s (.update k r found vo)).2 = .ok ∧
    s'.logical = specUpdate k r s.logical ∧
    s'.raw = (if s.searchRows.isSome then permute s'.logical vo else s'.logical) ∧
    s'.vo = (if s.searchRows.isSome then some vo else none) ∧
    s'.graph.isSome = true ∧ s'.searchRows.isSome = s.searchRows.isSome := by
  have hr' := any_ge_false_iff.2 hr
  have hc : s.compressed = false := (h.graph.1 g hg).1
  rw [step_update_ok hg k hr' found vo, updState_eq h, specUpdate_eq]
  cases hs : s.searchRows with
  | none => simp [h.search_none hs]
  | some sr => simp [doPrepare, hc]

end Pynn.Idx
