import PynnVerif.Model.Metrics2
import PynnVerif.Proofs.Metrics

/-!
# Helpers for `Props/C07b.lean`: the remaining dense kernels over `ℝ`, and `RArith`

* the `ℝ` instance of `Trig`, `arith_norm2` (= `arith_norm` + `sin`, `cos`, `arcsin`, `half`, `f32eps`);
* `sumBy3` as a `List.sum`, the quadratic form of `mahalanobis`, the running sum of `wasserstein_1d`,
  `popcnt` as a count of set bits;
* generic (`RArith α`) sign lemmas for the accumulation loops, `instance : RArithNU ℝ`.
-/
namespace Pynn.Metrics

noncomputable instance instTrigReal : Trig ℝ where
  sin := Real.sin
  cos := Real.cos
  arcsin := Real.arcsin

theorem sin_real (a : ℝ) : Trig.sin a = Real.sin a := rfl
theorem cos_real (a : ℝ) : Trig.cos a = Real.cos a := rfl
theorem arcsin_real (a : ℝ) : Trig.arcsin a = Real.arcsin a := rfl

theorem half_real : (half : ℝ) = 1 / 2 := by unfold half; arith_norm

theorem f32eps_real : (f32eps : ℝ) = 1 / 8388608 := by unfold f32eps; arith_norm

theorem f32eps_pos : (0 : ℝ) < (f32eps : ℝ) := by rw [f32eps_real]; norm_num

theorem radians10_real : (radians10 : ℝ) = 10 * (Real.pi / 180) := by unfold radians10; arith_norm

/-- `arith_norm`, plus the operations of `Trig` and the literals of `Model/Metrics2.lean` -/
macro "arith_norm2" : tactic =>
  `(tactic| simp only [half_real, f32eps_real, radians10_real, sin_real, cos_real, arcsin_real,
      zero_real, one_real, add_real, sub_real, mul_real, div_real, neg_real,
      lt_real, le_real, beq_real, bne_real, abs_real, max_real, min_real, ofNat_real, sqrt_real,
      log2_real, log_real, pow_real, arccos_real, pi_real, f32max_real, Bool.and_eq_true,
      Bool.or_eq_true, decide_eq_true_eq, Nat.cast_ofNat])

/-! ### three-vector loops -/

theorem sumBy3_real (f : ℝ → ℝ → ℝ → ℝ) (x y s : List ℝ) :
    sumBy3 f x y s = (((x.zip y).zip s).map (fun p => f p.1.1 p.1.2 p.2)).sum := by
  unfold sumBy3
  arith_norm
  rw [foldl_add_eq (fun p : (ℝ × ℝ) × ℝ => f p.1.1 p.1.2 p.2), zero_add]

theorem zip_zip_swap (x y s : List ℝ) :
    ((y.zip x).zip s) = ((x.zip y).zip s).map (fun p => ((p.1.2, p.1.1), p.2)) := by
  induction x generalizing y s with
  | nil => cases y <;> simp
  | cons a x ih =>
    cases y with
    | nil => simp
    | cons b y =>
      cases s with
      | nil => simp
      | cons c s => simp [ih]

theorem sumBy3_swap (f : ℝ → ℝ → ℝ → ℝ) (hf : ∀ a b c, f a b c = f b a c) (x y s : List ℝ) :
    sumBy3 f x y s = sumBy3 f y x s := by
  rw [sumBy3_real, sumBy3_real, zip_zip_swap x y s, List.map_map]
  congr 1
  apply List.map_congr_left
  intro p _
  exact hf _ _ _

theorem zip_zip_self (x s : List ℝ) :
    ((x.zip x).zip s) = (x.zip s).map (fun p => ((p.1, p.1), p.2)) := by
  induction x generalizing s with
  | nil => simp
  | cons a x ih =>
    cases s with
    | nil => simp
    | cons c s => simp [ih]

theorem sumBy3_self_zero (f : ℝ → ℝ → ℝ → ℝ) (hf : ∀ a c, f a a c = 0) (x s : List ℝ) :
    sumBy3 f x x s = 0 := by
  rw [sumBy3_real, zip_zip_self, List.map_map]
  apply List.sum_eq_zero
  intro v hv
  obtain ⟨p, _, rfl⟩ := List.mem_map.1 hv
  exact hf _ _

theorem sumBy3_nonneg (f : ℝ → ℝ → ℝ → ℝ) (x y s : List ℝ)
    (hf : ∀ p ∈ (x.zip y).zip s, 0 ≤ f p.1.1 p.1.2 p.2) : 0 ≤ sumBy3 f x y s := by
  rw [sumBy3_real]
  apply List.sum_nonneg
  intro v hv
  obtain ⟨p, hp, rfl⟩ := List.mem_map.1 hv
  exact hf p hp

/-! ### mahalanobis -/

theorem vecDiff_real (x y : List ℝ) : vecDiff x y = List.zipWith (fun a b => a - b) x y := by
  unfold vecDiff; arith_norm

theorem quadForm_real (V : List (List ℝ)) (d : List ℝ) :
    quadForm V d = ((V.zip d).map (fun p => (List.zipWith (fun a b => a * b) p.1 d).sum * p.2)).sum := by
  unfold quadForm
  arith_norm
  rw [foldl_add_eq (fun p : List ℝ × ℝ => dotProd p.1 d * p.2), zero_add]
  congr 1
  apply List.map_congr_left
  intro p _
  unfold dotProd
  rw [sumBy_real]

theorem vecDiff_swap (x y : List ℝ) : vecDiff y x = (vecDiff x y).map (fun v => -v) := by
  rw [vecDiff_real, vecDiff_real, List.zipWith_comm, List.map_zipWith]
  congr 1
  funext a b
  ring

theorem sum_zipWith_mul_neg (r d : List ℝ) :
    (List.zipWith (fun a b => a * b) r (d.map (fun v => -v))).sum =
      -(List.zipWith (fun a b => a * b) r d).sum := by
  induction r generalizing d with
  | nil => simp
  | cons a r ih =>
    cases d with
    | nil => simp
    | cons b d => simp [ih]; ring

theorem quadForm_neg (V : List (List ℝ)) (d : List ℝ) :
    quadForm V (d.map (fun v => -v)) = quadForm V d := by
  rw [quadForm_real, quadForm_real, List.zip_map_right, List.map_map]
  congr 1
  apply List.map_congr_left
  intro p _
  simp only [Function.comp, Prod.map, id]
  rw [sum_zipWith_mul_neg]
  ring

theorem vecDiff_self (x : List ℝ) : ∀ v ∈ vecDiff x x, v = 0 := by
  rw [vecDiff_real, List.zipWith_self]
  intro v hv
  obtain ⟨a, _, rfl⟩ := List.mem_map.1 hv
  simp

theorem quadForm_zero (V : List (List ℝ)) (d : List ℝ) (hd : ∀ v ∈ d, v = 0) : quadForm V d = 0 := by
  rw [quadForm_real]
  apply List.sum_eq_zero
  intro v hv
  obtain ⟨p, hp, rfl⟩ := List.mem_map.1 hv
  rw [hd p.2 (List.of_mem_zip hp).2, mul_zero]

/-! ### haversine -/

theorem haversineRadicand_real (x0 x1 y0 y1 : ℝ) :
    haversineRadicand x0 x1 y0 y1 =
      Real.sin (1 / 2 * (x0 - y0)) * Real.sin (1 / 2 * (x0 - y0)) +
        Real.cos x0 * Real.cos y0 * (Real.sin (1 / 2 * (x1 - y1)) * Real.sin (1 / 2 * (x1 - y1))) := by
  unfold haversineRadicand; arith_norm2

theorem haversineCore_real (x0 x1 y0 y1 : ℝ) :
    haversineCore x0 x1 y0 y1 =
      2 * Real.arcsin (min (Real.sqrt (haversineRadicand x0 x1 y0 y1)) 1) := by
  unfold haversineCore; arith_norm2

theorem sin_half_mul_self (t : ℝ) :
    Real.sin (1 / 2 * t) * Real.sin (1 / 2 * t) = 1 / 2 - Real.cos t / 2 := by
  rw [← sq, Real.sin_sq_eq_half_sub]
  congr 3
  ring

/-- the haversine formula: the radicand is `(1 − ⟨u, v⟩)/2` for the unit vectors `u`, `v` of the two
points, `⟨u, v⟩ = sin φ₁ sin φ₂ + cos φ₁ cos φ₂ cos(λ₁ − λ₂)` -/
theorem haversineRadicand_eq (x0 x1 y0 y1 : ℝ) :
    haversineRadicand x0 x1 y0 y1 =
      (1 - (Real.sin x0 * Real.sin y0 + Real.cos x0 * Real.cos y0 * Real.cos (x1 - y1))) / 2 := by
  rw [haversineRadicand_real, sin_half_mul_self, sin_half_mul_self, Real.cos_sub x0 y0]
  ring

theorem cos_mul_cos_bounds (x0 y0 : ℝ) :
    -(Real.sin (1 / 2 * (x0 - y0)) * Real.sin (1 / 2 * (x0 - y0))) ≤ Real.cos x0 * Real.cos y0 ∧
    Real.cos x0 * Real.cos y0 ≤ 1 - Real.sin (1 / 2 * (x0 - y0)) * Real.sin (1 / 2 * (x0 - y0)) := by
  rw [sin_half_mul_self]
  have hC : Real.cos x0 * Real.cos y0 = (Real.cos (x0 - y0) + Real.cos (x0 + y0)) / 2 := by
    rw [Real.cos_sub, Real.cos_add]; ring
  have h1 := Real.neg_one_le_cos (x0 + y0)
  have h2 := Real.cos_le_one (x0 + y0)
  constructor <;> linarith

/-- for ALL real arguments (not only latitudes in `[-π/2, π/2]`) the radicand is in `[0, 1]` -/
theorem haversineRadicand_range (x0 x1 y0 y1 : ℝ) :
    0 ≤ haversineRadicand x0 x1 y0 y1 ∧ haversineRadicand x0 x1 y0 y1 ≤ 1 := by
  rw [haversineRadicand_real]
  obtain ⟨h1, h2⟩ := cos_mul_cos_bounds x0 y0
  set A := Real.sin (1 / 2 * (x0 - y0)) * Real.sin (1 / 2 * (x0 - y0)) with hA
  set B := Real.sin (1 / 2 * (x1 - y1)) * Real.sin (1 / 2 * (x1 - y1)) with hB
  set C := Real.cos x0 * Real.cos y0
  have hA0 : 0 ≤ A := mul_self_nonneg _
  have hB0 : 0 ≤ B := mul_self_nonneg _
  have hA1 : A ≤ 1 := by
    rw [hA, ← sq]; exact Real.sin_sq_le_one _
  have hB1 : B ≤ 1 := by
    rw [hB, ← sq]; exact Real.sin_sq_le_one _
  constructor
  · nlinarith [mul_nonneg hA0 (sub_nonneg.2 hB1), mul_le_mul_of_nonneg_right h1 hB0]
  · nlinarith [mul_nonneg (sub_nonneg.2 hA1) (sub_nonneg.2 hB1), mul_le_mul_of_nonneg_right h2 hB0]

/-- `2 arcsin √((1 − t)/2) = arccos t` on `[-1, 1]` -/
theorem two_arcsin_sqrt_eq_arccos {t : ℝ} (h1 : -1 ≤ t) (h2 : t ≤ 1) :
    2 * Real.arcsin (Real.sqrt ((1 - t) / 2)) = Real.arccos t := by
  have hθ0 := Real.arccos_nonneg t
  have hθπ := Real.arccos_le_pi t
  have hcos : Real.cos (Real.arccos t) = t := Real.cos_arccos h1 h2
  have hs : Real.sin (Real.arccos t / 2) = Real.sqrt ((1 - t) / 2) := by
    rw [Real.sin_half_eq_sqrt hθ0 (by linarith [Real.pi_pos]), hcos]
  rw [← hs, Real.arcsin_sin (by linarith [Real.pi_pos]) (by linarith)]
  ring

/-! ### the smoothed divergences -/

theorem smoothedPdf_real (x : List ℝ) (n : ℕ) :
    smoothedPdf x n = x.map (fun v => (v + 1 / 8388608) / (l1 x + 1 / 8388608 * (n : ℝ))) := by
  unfold smoothedPdf; arith_norm2

theorem smoothedPdf_length (x : List ℝ) (n : ℕ) : (smoothedPdf x n).length = x.length := by
  rw [smoothedPdf_real, List.length_map]

/-- `Σ xᵢ + ε·dim = Σ (xᵢ + ε)`: the normaliser is the mass of the smoothed vector -/
theorem smoothed_mass (x : List ℝ) (e : ℝ) :
    l1 x + e * (x.length : ℝ) = (x.map (fun v => v + e)).sum := by
  unfold l1
  rw [sum1_real]
  induction x with
  | nil => simp
  | cons a x ih =>
    simp only [List.map_cons, List.sum_cons, List.length_cons, Nat.cast_add, Nat.cast_one] at ih ⊢
    linarith

theorem smoothed_mass_pos {x : List ℝ} (hx : ∀ a ∈ x, 0 ≤ a) {n : ℕ} (hn : 0 < n) :
    0 < l1 x + 1 / 8388608 * (n : ℝ) := by
  have h1 := l1_nonneg hx
  have h2 : (0 : ℝ) < (n : ℝ) := by exact_mod_cast hn
  have : (0 : ℝ) < 1 / 8388608 * (n : ℝ) := by positivity
  linarith

theorem smoothedPdf_pos {x : List ℝ} (hx : ∀ a ∈ x, 0 ≤ a) {n : ℕ} (hn : 0 < n) :
    ∀ p ∈ smoothedPdf x n, 0 < p := by
  rw [smoothedPdf_real]
  intro p hp
  obtain ⟨a, ha, rfl⟩ := List.mem_map.1 hp
  have := hx a ha
  exact div_pos (by linarith [show (0 : ℝ) < 1 / 8388608 by norm_num]) (smoothed_mass_pos hx hn)

theorem jsTerm_real (p q : ℝ) :
    jsTerm p q = 1 / 2 * (p * Real.log (p / (1 / 2 * (p + q))) + q * Real.log (q / (1 / 2 * (p + q)))) := by
  unfold jsTerm; arith_norm2

theorem jsTerm_comm (p q : ℝ) : jsTerm p q = jsTerm q p := by
  rw [jsTerm_real, jsTerm_real, add_comm q p]; ring

theorem jsTerm_self (p : ℝ) : jsTerm p p = 0 := by
  rw [jsTerm_real]
  have h : 1 / 2 * (p + p) = p := by ring
  rw [h]
  by_cases hp : p = 0
  · rw [hp]; simp
  · rw [div_self hp, Real.log_one]; ring

theorem sklTerm_real (p q : ℝ) :
    sklTerm p q = p * Real.log (p / q) + q * Real.log (q / p) := by
  unfold sklTerm; arith_norm2

theorem sklTerm_comm (p q : ℝ) : sklTerm p q = sklTerm q p := by
  rw [sklTerm_real, sklTerm_real]; ring

theorem sklTerm_self (p : ℝ) : sklTerm p p = 0 := by
  rw [sklTerm_real]
  by_cases hp : p = 0
  · rw [hp]; simp
  · rw [div_self hp, Real.log_one]; ring

/-- each term of the symmetrised KL sum is `(p − q)(log p − log q) ≥ 0` for positive `p`, `q` -/
theorem sklTerm_nonneg {p q : ℝ} (hp : 0 < p) (hq : 0 < q) : 0 ≤ sklTerm p q := by
  rw [sklTerm_real, Real.log_div hp.ne' hq.ne', Real.log_div hq.ne' hp.ne']
  have : p * (Real.log p - Real.log q) + q * (Real.log q - Real.log p) =
      (p - q) * (Real.log p - Real.log q) := by ring
  rw [this]
  rcases le_total p q with h | h
  · exact mul_nonneg_of_nonpos_of_nonpos (by linarith) (by linarith [Real.log_le_log hp h])
  · exact mul_nonneg (by linarith) (by linarith [Real.log_le_log hq h])

/-! ### wasserstein_1d: the running sum -/

theorem sum_map_div (l : List ℝ) (s : ℝ) : (l.map (fun v => v / s)).sum = l.sum / s := by
  induction l with
  | nil => simp
  | cons a l ih => simp only [List.map_cons, List.sum_cons, ih, add_div]

theorem cumsumGo_real (prev : ℝ) (t : List ℝ) :
    cumsumGo prev t = (List.range t.length).map (fun i => prev + (t.take (i + 1)).sum) := by
  induction t generalizing prev with
  | nil => simp [cumsumGo]
  | cons b t ih =>
    simp only [cumsumGo, List.length_cons]
    rw [List.range_succ_eq_map, List.map_cons, List.map_map, ih]
    arith_norm
    congr 1
    · simp; ring
    · apply List.map_congr_left
      intro i _
      simp only [Function.comp, List.take_succ_cons, List.sum_cons]
      ring

/-- the in-place loop computes the prefix sums -/
theorem cumsum_real (l : List ℝ) :
    cumsum l = (List.range l.length).map (fun i => (l.take (i + 1)).sum) := by
  cases l with
  | nil => simp [cumsum]
  | cons a t =>
    simp only [cumsum, List.length_cons]
    rw [List.range_succ_eq_map, List.map_cons, List.map_map, cumsumGo_real]
    refine congrArg₂ _ (by simp) ?_
    apply List.map_congr_left
    intro i _
    simp only [Function.comp, List.take_succ_cons, List.sum_cons]

/-- the cumulative distribution function of the normalised vector: `Fᵢ = (Σ_{j ≤ i} xⱼ) / Σ x` -/
noncomputable def cdf (x : List ℝ) : List ℝ :=
  (List.range x.length).map (fun i => (x.take (i + 1)).sum / x.sum)

theorem cumsum_normalised (x : List ℝ) : cumsum (x.map (fun v => v / l1 x)) = cdf x := by
  rw [cumsum_real, List.length_map]
  unfold cdf
  apply List.map_congr_left
  intro i _
  have : l1 x = x.sum := by unfold l1; rw [sum1_real]; simp
  rw [← List.map_take, sum_map_div, this]

theorem cdf_length (x : List ℝ) : (cdf x).length = x.length := by simp [cdf]

/-- a CDF of a non-negative vector with positive mass: values in `[0, 1]` -/
theorem cdf_range {x : List ℝ} (hx : ∀ a ∈ x, 0 ≤ a) (hs : 0 < x.sum) :
    ∀ v ∈ cdf x, 0 ≤ v ∧ v ≤ 1 := by
  intro v hv
  unfold cdf at hv
  obtain ⟨i, _, rfl⟩ := List.mem_map.1 hv
  have h0 : 0 ≤ (x.take (i + 1)).sum :=
    List.sum_nonneg (fun a ha => hx a (List.mem_of_mem_take ha))
  have h1 : (x.take (i + 1)).sum ≤ x.sum := by
    conv_rhs => rw [← List.take_append_drop (i + 1) x, List.sum_append]
    have : 0 ≤ (x.drop (i + 1)).sum :=
      List.sum_nonneg (fun a ha => hx a (List.mem_of_mem_drop ha))
    linarith
  exact ⟨div_nonneg h0 hs.le, (div_le_one hs).2 h1⟩

theorem wasserstein1d_real (x y : List ℝ) (p : ℝ) :
    wasserstein1d x y p = (List.zipWith (fun a b => |a - b| ^ p) (cdf x) (cdf y)).sum ^ (1 / p) := by
  rw [← cumsum_normalised x, ← cumsum_normalised y, ← minkowski_real]
  rfl

/-! ### the bit kernels -/

theorem foldl_add_nat {β : Type} (g : β → ℕ) (l : List β) (a : ℕ) :
    l.foldl (fun r p => r + g p) a = a + (l.map g).sum := by
  induction l generalizing a with
  | nil => simp
  | cons h t ih => simp [ih, Nat.add_assoc]

/-- `popcnt[b]` is the number of set bits among the 8 low bits -/
theorem popcntFuel_eq (f b : ℕ) : popcntFuel f b = (List.range f).countP (fun k => b.testBit k) := by
  induction f generalizing b with
  | zero => simp [popcntFuel]
  | succ f ih =>
    rw [popcntFuel, ih, List.range_succ_eq_map, List.countP_cons, List.countP_map]
    have : ((fun k => b.testBit k) ∘ Nat.succ) = fun k => (b / 2).testBit k := by
      funext k; simp [Nat.testBit_succ]
    rw [this, Nat.testBit_zero]
    rcases Nat.mod_two_eq_zero_or_one b with h | h
    · simp [h]
    · simp [h]; omega

theorem popcnt_eq (b : ℕ) : popcnt b = (List.range 8).countP (fun k => b.testBit k) :=
  popcntFuel_eq 8 b

/-- the number of positions `k < 8` at which the bits of `a` and `b` satisfy `op` -/
def bitCount8 (op : Bool → Bool → Bool) (a b : ℕ) : ℕ :=
  (List.range 8).countP (fun k => op (a.testBit k) (b.testBit k))

theorem popcnt_xor (a b : ℕ) : popcnt (a ^^^ b) = bitCount8 (fun u v => u != v) a b := by
  rw [popcnt_eq]; unfold bitCount8
  congr 1; funext k; rw [Nat.testBit_xor]

theorem popcnt_and (a b : ℕ) : popcnt (a &&& b) = bitCount8 (fun u v => u && v) a b := by
  rw [popcnt_eq]; unfold bitCount8
  congr 1; funext k; rw [Nat.testBit_and]

theorem popcnt_or (a b : ℕ) : popcnt (a ||| b) = bitCount8 (fun u v => u || v) a b := by
  rw [popcnt_eq]; unfold bitCount8
  congr 1; funext k; rw [Nat.testBit_or]

theorem bitXorCount_eq (x y : List ℕ) :
    bitXorCount x y = (List.zipWith (bitCount8 (fun u v => u != v)) x y).sum := by
  unfold bitXorCount
  rw [foldl_add_nat (fun p : ℕ × ℕ => popcnt (p.1 ^^^ p.2)), Nat.zero_add,
    ← List.map_uncurry_zip_eq_zipWith]
  congr 1; apply List.map_congr_left; intro p _; exact popcnt_xor _ _

theorem bitAndCount_eq (x y : List ℕ) :
    bitAndCount x y = (List.zipWith (bitCount8 (fun u v => u && v)) x y).sum := by
  unfold bitAndCount
  rw [foldl_add_nat (fun p : ℕ × ℕ => popcnt (p.1 &&& p.2)), Nat.zero_add,
    ← List.map_uncurry_zip_eq_zipWith]
  congr 1; apply List.map_congr_left; intro p _; exact popcnt_and _ _

theorem bitOrCount_eq (x y : List ℕ) :
    bitOrCount x y = (List.zipWith (bitCount8 (fun u v => u || v)) x y).sum := by
  unfold bitOrCount
  rw [foldl_add_nat (fun p : ℕ × ℕ => popcnt (p.1 ||| p.2)), Nat.zero_add,
    ← List.map_uncurry_zip_eq_zipWith]
  congr 1; apply List.map_congr_left; intro p _; exact popcnt_or _ _

theorem bitCount8_comm (op : Bool → Bool → Bool) (hop : ∀ u v, op u v = op v u) (a b : ℕ) :
    bitCount8 op a b = bitCount8 op b a := by
  unfold bitCount8; congr 1; funext k; exact hop _ _

theorem bitXorCount_comm (x y : List ℕ) : bitXorCount x y = bitXorCount y x := by
  rw [bitXorCount_eq, bitXorCount_eq,
    List.zipWith_comm_of_comm (bitCount8_comm _ (fun u v => by cases u <;> cases v <;> rfl))]

theorem bitAndCount_comm (x y : List ℕ) : bitAndCount x y = bitAndCount y x := by
  rw [bitAndCount_eq, bitAndCount_eq,
    List.zipWith_comm_of_comm (bitCount8_comm _ (fun u v => Bool.and_comm u v))]

theorem bitOrCount_comm (x y : List ℕ) : bitOrCount x y = bitOrCount y x := by
  rw [bitOrCount_eq, bitOrCount_eq,
    List.zipWith_comm_of_comm (bitCount8_comm _ (fun u v => Bool.or_comm u v))]

theorem bitXorCount_self (x : List ℕ) : bitXorCount x x = 0 := by
  rw [bitXorCount_eq, List.zipWith_self]
  apply List.sum_eq_zero
  intro v hv
  obtain ⟨a, _, rfl⟩ := List.mem_map.1 hv
  unfold bitCount8
  rw [List.countP_eq_zero]
  intro k _; simp

theorem bitAndCount_self (x : List ℕ) : bitAndCount x x = bitOrCount x x := by
  rw [bitAndCount_eq, bitOrCount_eq, List.zipWith_self, List.zipWith_self]
  congr 1; apply List.map_congr_left; intro a _
  unfold bitCount8; congr 1; funext k; simp

/-- `|x ∧ y| ≤ |x ∨ y|` -/
theorem bitAndCount_le_bitOrCount (x y : List ℕ) : bitAndCount x y ≤ bitOrCount x y := by
  rw [bitAndCount_eq, bitOrCount_eq]
  induction x generalizing y with
  | nil => simp
  | cons a x ih =>
    cases y with
    | nil => simp
    | cons b y =>
      simp only [List.zipWith_cons_cons, List.sum_cons]
      have : bitCount8 (fun u v => u && v) a b ≤ bitCount8 (fun u v => u || v) a b := by
        unfold bitCount8
        apply List.countP_mono_left
        intro k _ h
        simp only [Bool.and_eq_true] at h
        simp [h.1]
      exact Nat.add_le_add this (ih y)

theorem bitJaccardOfCounts_real (r d : ℝ) :
    bitJaccardOfCounts r d = if d = 0 then 0 else -Real.log (r / d) := by
  unfold bitJaccardOfCounts; arith_norm

/-! ### tsss -/

theorem clampCos_real (c : ℝ) : clampCos c = min (max c (-1)) 1 := by
  unfold clampCos; arith_norm

/-- the clamp keeps ANY value inside the domain of `arccos` -/
theorem clampCos_mem (c : ℝ) : -1 ≤ clampCos c ∧ clampCos c ≤ 1 := by
  rw [clampCos_real]
  exact ⟨le_min (le_max_right _ _) (by norm_num), min_le_right _ _⟩

theorem clampCos_of_mem {c : ℝ} (h1 : -1 ≤ c) (h2 : c ≤ 1) : clampCos c = c := by
  rw [clampCos_real, max_eq_left h1, min_eq_left h2]

theorem tsss_real (x y : List ℝ) : tsss x y =
    (let ed := Real.sqrt (squaredEuclidean x y)
     let nx := Real.sqrt (normSq x)
     let ny := Real.sqrt (normSq y)
     let md := |nx - ny|
     let theta := Real.arccos (clampCos (dotProd x y / (nx * ny))) + 10 * (Real.pi / 180)
     nx * ny * Real.sin theta / 2 * ((ed + md) * (ed + md) * theta)) := by
  unfold tsss squaredEuclidean; arith_norm2

theorem tsss_comm (x y : List ℝ) : tsss x y = tsss y x := by
  rw [tsss_real, tsss_real]
  have h1 : squaredEuclidean x y = squaredEuclidean y x :=
    sumBy_comm sqDiff (fun a b => by unfold sqDiff; arith_norm; ring) x y
  simp only [h1, dotProd_comm x y, abs_sub_comm (Real.sqrt (normSq x)),
    mul_comm (Real.sqrt (normSq x)) (Real.sqrt (normSq y))]

theorem squaredEuclidean_self' (x : List ℝ) : squaredEuclidean x x = 0 := by
  unfold squaredEuclidean
  rw [sumBy_self]
  exact sum1_eq_zero _ x (fun a _ => by unfold sqDiff; arith_norm; ring)

theorem tsss_self' (x : List ℝ) : tsss x x = 0 := by
  rw [tsss_real]
  simp only [squaredEuclidean_self', Real.sqrt_zero, sub_self, abs_zero, add_zero, mul_zero, zero_mul]

/-- `|⟨x,y⟩| ≤ ‖x‖‖y‖` -/
theorem abs_dotProd_le (x y : List ℝ) (hl : x.length = y.length) :
    |dotProd x y| ≤ Real.sqrt (normSq x) * Real.sqrt (normSq y) := by
  rw [← Real.sqrt_mul (normSq_nonneg x)]
  exact Real.abs_le_sqrt (dotProd_sq_le x y hl)

/-! ### correlation (needed for `spearmanr`; `Props/C07.lean` has the same facts, but it imports
`Props/C07b.lean`) -/

theorem correlation_comm (x y : List ℝ) (hl : x.length = y.length) :
    correlation x y = correlation y x := by
  rw [correlation_real, correlation_real]
  simp only []
  rw [← hl]
  rw [sumBy_swap (fun a b => (a - l1 y / (x.length : ℝ)) * (b - l1 x / (x.length : ℝ)))
    (fun a b => (a - l1 x / (x.length : ℝ)) * (b - l1 y / (x.length : ℝ)))
    (fun a b => by ring) y x]
  rw [mul_comm]
  exact if_congr and_comm rfl rfl

theorem correlation_self' (x : List ℝ) : correlation x x = 0 := by
  rw [correlation_real]
  simp only []
  rw [sumBy_self]
  set N := sum1 (fun v => (v - l1 x / (x.length : ℝ)) * (v - l1 x / (x.length : ℝ))) x with hN
  have hN0 : 0 ≤ N := sum1_nonneg _ x (fun a _ => mul_self_nonneg _)
  split_ifs with h0 h1
  · rfl
  · exact absurd ⟨h1, h1⟩ h0
  · rw [Real.sqrt_mul_self hN0, div_self h1, sub_self]

/-! ### rankdata (average) -/

theorem rankAverage_real (a : List ℝ) :
    rankAverage a = a.map (fun v => 1 / 2 *
      ((a.countP (fun u => decide (u ≤ v)) + a.countP (fun u => decide (u < v)) + 1 : ℕ) : ℝ)) := by
  unfold rankAverage; arith_norm2

theorem rankAverage_length (a : List ℝ) : (rankAverage a).length = a.length := by
  rw [rankAverage_real, List.length_map]

/-! ### `RArith`: sign lemmas for the loops, valid for every carrier -/
section Generic
variable {α : Type} [RArith α]
open RArith

theorem safeSqrt_some {a : α} (h : 0 ≤ a) : safeSqrt a = some (Arith.sqrt a) := by
  unfold safeSqrt; rw [if_pos h]

theorem safeDiv_some (a : α) {b : α} (h : (b == 0) = false) : safeDiv a b = some (a / b) := by
  unfold safeDiv; rw [h]; rfl

theorem safeLog_some {a : α} (h : 0 < a) : safeLog a = some (Arith.log a) := by
  unfold safeLog; rw [if_pos h]

theorem safeArccos_some {a : α} (h1 : -1 ≤ a) (h2 : a ≤ 1) : safeArccos a = some (Arith.arccos a) := by
  unfold safeArccos; rw [if_pos ⟨h1, h2⟩]

theorem safeArcsin_some {a : α} (h1 : -1 ≤ a) (h2 : a ≤ 1) : safeArcsin a = some (Trig.arcsin a) := by
  unfold safeArcsin; rw [if_pos ⟨h1, h2⟩]

theorem neg_one_le_one : (-1 : α) ≤ 1 := le_trans neg_one_le_zero zero_le_one

theorem neg_one_le_of_nonneg {a : α} (h : 0 ≤ a) : (-1 : α) ≤ a := le_trans neg_one_le_zero h

theorem foldl_nonnegG {β : Type} (g : β → α) (l : List β) (a : α) (ha : 0 ≤ a)
    (hg : ∀ p ∈ l, 0 ≤ g p) : 0 ≤ l.foldl (fun r p => r + g p) a := by
  induction l generalizing a with
  | nil => exact ha
  | cons b t ih =>
    rw [List.foldl_cons]
    exact ih _ (add_nonneg ha (hg b (List.mem_cons_self))) (fun p hp => hg p (List.mem_cons_of_mem _ hp))

theorem sum1_nonnegG (f : α → α) (x : List α) (hf : ∀ v ∈ x, 0 ≤ f v) : 0 ≤ sum1 f x :=
  foldl_nonnegG f x 0 (le_refl 0) hf

theorem sumBy_nonnegG (f : α → α → α) (x y : List α) (hf : ∀ p ∈ x.zip y, 0 ≤ f p.1 p.2) :
    0 ≤ sumBy f x y :=
  foldl_nonnegG (fun p : α × α => f p.1 p.2) (x.zip y) 0 (le_refl 0) hf

theorem normSq_nonnegG (x : List α) : 0 ≤ normSq x := sum1_nonnegG _ x (fun v _ => mul_self_nonneg v)

theorem l1_nonnegG {x : List α} (hx : ∀ a ∈ x, 0 ≤ a) : 0 ≤ l1 x := sum1_nonnegG _ x hx

theorem foldlM_someG {β : Type} (g : β → Option α) (l : List β) (a : α) (ha : 0 ≤ a)
    (hg : ∀ p ∈ l, ∃ t, g p = some t ∧ 0 ≤ t) :
    ∃ s, l.foldlM (fun r p => (g p).map (fun t => r + t)) a = some s ∧ 0 ≤ s := by
  induction l generalizing a with
  | nil => exact ⟨a, rfl, ha⟩
  | cons b t ih =>
    obtain ⟨v, hv, hv0⟩ := hg b List.mem_cons_self
    rw [List.foldlM_cons, hv]
    exact ih _ (add_nonneg ha hv0) (fun p hp => hg p (List.mem_cons_of_mem _ hp))

theorem sumByG_some (f : α → α → Option α) (x y : List α)
    (hf : ∀ p ∈ x.zip y, ∃ t, f p.1 p.2 = some t ∧ 0 ≤ t) :
    ∃ s, sumByG f x y = some s ∧ 0 ≤ s :=
  foldlM_someG (fun p : α × α => f p.1 p.2) (x.zip y) 0 (le_refl 0) hf

/-- `min(max(c, -1.0), 1.0)` is in `[-1, 1]` for every `c`, by the order axioms alone -/
theorem clampCos_memG (c : α) : (-1 : α) ≤ clampCos c ∧ clampCos c ≤ 1 :=
  ⟨le_min (le_max_right _ _) neg_one_le_one, min_le_right _ _⟩

/-- `min(r, 1.0)` with `r ≥ 0` is in `[-1, 1]` -/
theorem min_one_memG {r : α} (h : 0 ≤ r) : (-1 : α) ≤ Arith.min r 1 ∧ Arith.min r 1 ≤ 1 :=
  ⟨le_min (neg_one_le_of_nonneg h) neg_one_le_one, min_le_right _ _⟩

end Generic

/-! ### `ℝ` is an `RArith` (with the no-underflow facts) -/

noncomputable instance instRArithReal : RArith ℝ where
  toArith := instArithReal
  toTrig := instTrigReal
  le_refl := fun a => _root_.le_refl a
  le_trans := fun h1 h2 => _root_.le_trans h1 h2
  lt_of_not_le := fun h => not_le.1 h
  le_of_lt := fun h => _root_.le_of_lt h
  pos_ne_zero := fun {a} h => decide_eq_false (ne_of_gt h)
  pos_of_nonneg_of_ne := fun {a} h0 h => lt_of_le_of_ne h0 (fun e => by
    have : decide (a = 0) = false := h
    simp [← e] at this)
  zero_le_one := _root_.zero_le_one
  neg_one_le_zero := by show (-1 : ℝ) ≤ 0; norm_num
  pi_pos := Real.pi_pos
  ofNat_pos := fun {n} h => by show (0 : ℝ) < (n : ℝ); exact_mod_cast h
  add_nonneg := fun h1 h2 => _root_.add_nonneg h1 h2
  mul_nonneg := fun h1 h2 => _root_.mul_nonneg h1 h2
  mul_self_nonneg := fun a => _root_.mul_self_nonneg a
  div_nonneg := fun h1 h2 => _root_.div_nonneg h1 (_root_.le_of_lt h2)
  abs_nonneg := fun a => _root_.abs_nonneg a
  sqrt_nonneg := fun {a} _ => Real.sqrt_nonneg a
  sqrt_pos := fun h => Real.sqrt_pos.2 h
  le_max_left := fun a b => _root_.le_max_left a b
  le_max_right := fun a b => _root_.le_max_right a b
  min_le_left := fun a b => _root_.min_le_left a b
  min_le_right := fun a b => _root_.min_le_right a b
  le_min := fun h1 h2 => _root_.le_min h1 h2

noncomputable instance instRArithNUReal : RArithNU ℝ where
  toRArith := instRArithReal
  mul_pos := fun h1 h2 => _root_.mul_pos h1 h2
  div_pos := fun h1 h2 => _root_.div_pos h1 h2

/-! ### helpers of the guardedness theorems -/
section GuardHelpers
open RArith

theorem beq_false_of_not_or {a b : Bool} (h : ¬ ((a || b) = true)) : a = false ∧ b = false := by
  cases a <;> cases b <;> simp_all

/-- guard on the factors, division by `sqrt` of the product: positive when nothing underflows -/
theorem sqrt_mul_pos {α : Type} [RArithNU α] {a b : α} (ha0 : 0 ≤ a) (hb0 : 0 ≤ b)
    (ha : (a == 0) = false) (hb : (b == 0) = false) :
    0 ≤ a * b ∧ 0 < Arith.sqrt (a * b) := by
  have h := RArithNU.mul_pos (pos_of_nonneg_of_ne ha0 ha) (pos_of_nonneg_of_ne hb0 hb)
  exact ⟨le_of_lt h, sqrt_pos h⟩

theorem canberra_fold_guarded {α : Type} [RArith α] (l : List (α × α)) (a : α) :
    l.foldlM (fun r p =>
      let denominator := Arith.abs p.1 + Arith.abs p.2
      if 0 < denominator then (safeDiv (Arith.abs (p.1 - p.2)) denominator).map (fun t => r + t)
      else some r) a ≠ none := by
  induction l generalizing a with
  | nil => simp [List.foldlM]
  | cons p t ih =>
    rw [List.foldlM_cons]
    by_cases h : 0 < Arith.abs p.1 + Arith.abs p.2
    · simp only [if_pos h, safeDiv_some _ (pos_ne_zero h), Option.map_some, Option.bind_eq_bind,
        Option.bind_some]
      exact ih _
    · simp only [if_neg h, Option.bind_eq_bind, Option.bind_some]
      exact ih _

end GuardHelpers

/-! ### the guarded kernels compute the same value as the plain ones -/
section Agree
variable {α : Type} [RArith α]

theorem safeSqrt_eq {a s : α} (h : safeSqrt a = some s) : s = Arith.sqrt a := by
  unfold safeSqrt at h; split at h <;> simp_all

theorem safeDiv_eq {a b q : α} (h : safeDiv a b = some q) : q = a / b := by
  unfold safeDiv at h; split at h <;> simp_all

theorem safeLog_eq {a s : α} (h : safeLog a = some s) : s = Arith.log a := by
  unfold safeLog at h; split at h <;> simp_all

theorem safeArccos_eq {a s : α} (h : safeArccos a = some s) : s = Arith.arccos a := by
  unfold safeArccos at h; split at h <;> simp_all

theorem safeArcsin_eq {a s : α} (h : safeArcsin a = some s) : s = Trig.arcsin a := by
  unfold safeArcsin at h; split at h <;> simp_all

theorem foldlM_eqG {β : Type} (g : β → Option α) (g' : β → α) (hg : ∀ p t, g p = some t → t = g' p)
    (l : List β) (a s : α) (h : l.foldlM (fun r p => (g p).map (fun t => r + t)) a = some s) :
    s = l.foldl (fun r p => r + g' p) a := by
  induction l generalizing a with
  | nil => simpa [List.foldlM] using h.symm
  | cons b t ih =>
    rw [List.foldlM_cons] at h
    cases hb : g b with
    | none => simp [hb] at h
    | some v =>
      rw [hb] at h
      rw [List.foldl_cons, ← hg b v hb]
      exact ih _ h

theorem sumByG_eq (f : α → α → Option α) (f' : α → α → α) (hf : ∀ a b t, f a b = some t → t = f' a b)
    (x y : List α) (s : α) (h : sumByG f x y = some s) : s = sumBy f' x y :=
  foldlM_eqG (fun p : α × α => f p.1 p.2) (fun p => f' p.1 p.2) (fun p t => hf p.1 p.2 t) _ _ _ h

theorem hellingerG_eq (x y : List α) (v : α) (h : hellingerG x y = some v) : v = hellinger x y := by
  unfold hellingerG at h
  unfold hellinger hellingerSum
  cases hr : sumByG (fun a b => safeSqrt (a * b)) x y with
  | none => simp [hr] at h
  | some r =>
    have hr' := sumByG_eq _ (fun a b => Arith.sqrt (a * b)) (fun a b t ht => safeSqrt_eq ht) x y r hr
    rw [hr] at h
    simp only [Option.bind_eq_bind, Option.bind_some] at h
    simp only []
    split at h
    · rename_i h1; rw [if_pos h1]; simpa using h.symm
    · rename_i h1; rw [if_neg h1]
      split at h
      · rename_i h2; rw [if_pos h2]; simpa using h.symm
      · rename_i h2; rw [if_neg h2]
        cases hs : safeSqrt (l1 x * l1 y) with
        | none => simp [hs] at h
        | some s =>
          rw [hs] at h
          simp only [Option.bind_some] at h
          cases hq : safeDiv r s with
          | none => simp [hq] at h
          | some q =>
            rw [hq] at h
            simp only [Option.bind_some] at h
            rw [safeSqrt_eq h, safeDiv_eq hq, safeSqrt_eq hs, hr']

theorem cosineG_eq (x y : List α) (v : α) (h : cosineG x y = some v) : v = cosine x y := by
  unfold cosineG at h; unfold cosine
  simp only [] at h ⊢
  split at h
  · rename_i h1; rw [if_pos h1]; simpa using h.symm
  · rename_i h1; rw [if_neg h1]
    split at h
    · rename_i h2; rw [if_pos h2]; simpa using h.symm
    · rename_i h2; rw [if_neg h2]
      simp only [Option.bind_eq_bind, Option.bind_eq_some_iff] at h
      obtain ⟨s, hs, q, hq, hv⟩ := h
      rw [← Option.some.inj hv, safeDiv_eq hq, safeSqrt_eq hs]

theorem trueAngularG_eq (x y : List α) (v : α) (h : trueAngularG x y = some v) :
    v = trueAngular x y := by
  unfold trueAngularG at h; unfold trueAngular
  simp only [] at h ⊢
  split at h
  · rename_i h1; rw [if_pos h1]; simpa using h.symm
  · rename_i h1; rw [if_neg h1]
    split at h
    · rename_i h2; rw [if_pos h2]; simpa using h.symm
    · rename_i h2; rw [if_neg h2]
      split at h
      · rename_i h3; rw [if_pos h3]; simpa using h.symm
      · rename_i h3; rw [if_neg h3]
        simp only [Option.bind_eq_bind, Option.bind_eq_some_iff] at h
        obtain ⟨s, hs, q, hq, t, ht, r, hr, hv⟩ := h
        rw [← Option.some.inj hv, safeDiv_eq hr, safeArccos_eq ht, safeDiv_eq hq, safeSqrt_eq hs]

theorem tsssG_eq (x y : List α) (v : α) (h : tsssG x y = some v) : v = tsss x y := by
  unfold tsssG at h; unfold tsss
  simp only [Option.bind_eq_bind, Option.bind_eq_some_iff] at h
  obtain ⟨nx, hnx, ny, hny, c, hc, t, ht, ed, hed, tr, htr, hv⟩ := h
  rw [← Option.some.inj hv, safeDiv_eq htr, safeSqrt_eq hed, safeArccos_eq ht, safeDiv_eq hc,
    safeSqrt_eq hnx, safeSqrt_eq hny]

theorem haversineG_eq (x0 x1 y0 y1 v : α) (h : haversineG x0 x1 y0 y1 = some v) :
    v = haversineCore x0 x1 y0 y1 := by
  unfold haversineG at h; unfold haversineCore
  simp only [Option.bind_eq_bind, Option.bind_eq_some_iff] at h
  obtain ⟨r, hr, a, ha, hv⟩ := h
  rw [← Option.some.inj hv, safeArcsin_eq ha, safeSqrt_eq hr]

theorem brayCurtisG_eq (x y : List α) (v : α) (h : brayCurtisG x y = some v) : v = brayCurtis x y := by
  unfold brayCurtisG at h; unfold brayCurtis
  simp only [] at h ⊢
  split at h
  · rename_i h1; rw [if_pos h1]; exact safeDiv_eq h
  · rename_i h1; rw [if_neg h1]; simpa using h.symm

theorem canberra_fold_eq (l : List (α × α)) (a v : α)
    (h : l.foldlM (fun r p =>
      let denominator := Arith.abs p.1 + Arith.abs p.2
      if 0 < denominator then (safeDiv (Arith.abs (p.1 - p.2)) denominator).map (fun t => r + t)
      else some r) a = some v) :
    v = l.foldl (fun r p =>
      let denominator := Arith.abs p.1 + Arith.abs p.2
      if 0 < denominator then r + Arith.abs (p.1 - p.2) / denominator else r) a := by
  induction l generalizing a with
  | nil => simpa [List.foldlM] using h.symm
  | cons p t ih =>
    rw [List.foldlM_cons] at h
    rw [List.foldl_cons]
    simp only [Option.bind_eq_bind, Option.bind_eq_some_iff] at h
    obtain ⟨r, hr, hv⟩ := h
    rw [ih _ hv]
    congr 1
    by_cases hd : 0 < Arith.abs p.1 + Arith.abs p.2
    · simp only [if_pos hd, Option.map_eq_some_iff] at hr ⊢
      obtain ⟨q, hq, rfl⟩ := hr
      rw [safeDiv_eq hq]
    · simp only [if_neg hd] at hr ⊢
      exact (Option.some.inj hr).symm

theorem canberraG_eq (x y : List α) (v : α) (h : canberraG x y = some v) : v = canberra x y :=
  canberra_fold_eq _ _ _ h

theorem correlationG_eq (x y : List α) (v : α) (h : correlationG x y = some v) :
    v = correlation x y := by
  unfold correlationG at h; unfold correlation
  simp only [Option.bind_eq_bind, Option.bind_eq_some_iff] at h
  obtain ⟨mx, hmx, my, hmy, h⟩ := h
  simp only []
  rw [← safeDiv_eq hmx, ← safeDiv_eq hmy]
  split at h
  · rename_i h1; rw [if_pos h1]; simpa using h.symm
  · rename_i h1; rw [if_neg h1]
    split at h
    · rename_i h2; rw [if_pos h2]; simpa using h.symm
    · rename_i h2; rw [if_neg h2]
      simp only [Option.bind_eq_some_iff] at h
      obtain ⟨s, hs, q, hq, hv⟩ := h
      rw [← Option.some.inj hv, safeDiv_eq hq, safeSqrt_eq hs]

theorem bitJaccardOfCountsG_eq (r d v : α) (h : bitJaccardOfCountsG r d = some v) :
    v = bitJaccardOfCounts r d := by
  unfold bitJaccardOfCountsG at h; unfold bitJaccardOfCounts
  split at h
  · rename_i h1; rw [if_pos h1]; simpa using h.symm
  · rename_i h1; rw [if_neg h1]
    simp only [Option.bind_eq_bind, Option.bind_eq_some_iff] at h
    obtain ⟨q, hq, l, hl, hv⟩ := h
    rw [← Option.some.inj hv, safeLog_eq hl, safeDiv_eq hq]

theorem correctAlternativeHellingerG_eq (d v : α) (h : correctAlternativeHellingerG d = some v) :
    v = correctAlternativeHellinger d := safeSqrt_eq h


end Agree

/-! ### definitions used in the statements of `Props/C07b.lean` -/

/-- the quadratic form the double loop evaluates: `Σᵢ (Σⱼ Vᵢⱼ dⱼ) dᵢ` (`V` as the list of its rows) -/
noncomputable def quadFormSpec (V : List (List ℝ)) (d : List ℝ) : ℝ :=
  ((V.zip d).map (fun r => (List.zipWith (fun a b => a * b) r.1 d).sum * r.2)).sum

/-- positive semi-definiteness, in the form the kernel evaluates -/
def PosSemidef (V : List (List ℝ)) : Prop :=
  ∀ d : List ℝ, d.length = V.length → 0 ≤ quadFormSpec V d


/-! ### a cooked-up `RArithNU` carrier (for the non-guardedness examples of `Props/C07b.lean`) -/

/-- the cooked-up arithmetic on `ℤ` -/
@[reducible] def cookedArith : Arith Int where
  zero := 0
  one := 1
  add := Int.add
  sub := Int.sub
  mul := Int.mul
  div := fun a b => Int.ediv a b + 1
  neg := Int.neg
  lt := Int.lt
  le := Int.le
  beq := fun a b => decide (a = b)
  decLt := fun a b => inferInstanceAs (Decidable (a < b))
  decLe := fun a b => inferInstanceAs (Decidable (a ≤ b))
  abs := fun a => (Int.natAbs a : Int)
  max := fun a b => if a ≤ b then b else a
  min := fun a b => if a ≤ b then a else b
  ofNat := fun n => (n : Int)
  sqrt := fun a => a
  log2 := fun _ => 0
  log := fun _ => 0
  pow := fun _ _ => 1
  arccos := fun _ => 0
  pi := 3
  f32max := 340282346638528859811704183484516925440

@[reducible] def cookedTrig : Trig Int where
  sin := fun _ => 1
  cos := fun _ => 1
  arcsin := fun _ => 0

@[reducible] def cookedRArith : RArith Int where
  toArith := cookedArith
  toTrig := cookedTrig
  le_refl := fun a => Int.le_refl a
  le_trans := fun h1 h2 => Int.le_trans h1 h2
  lt_of_not_le := fun h => Int.not_le.1 h
  le_of_lt := fun h => Int.le_of_lt h
  pos_ne_zero := fun {a} h => decide_eq_false (by have : (0 : Int) < a := h; omega)
  pos_of_nonneg_of_ne := fun {a} h0 h => by
    have h0' : (0 : Int) ≤ a := h0
    have : decide (a = 0) = false := h
    have : a ≠ 0 := by simpa using this
    show (0 : Int) < a
    omega
  zero_le_one := by show (0 : Int) ≤ 1; omega
  neg_one_le_zero := by show (-1 : Int) ≤ 0; omega
  pi_pos := by show (0 : Int) < 3; omega
  ofNat_pos := fun {n} h => by show (0 : Int) < (n : Int); omega
  add_nonneg := fun {a b} h1 h2 => by
    have h1' : (0 : Int) ≤ a := h1
    have h2' : (0 : Int) ≤ b := h2
    show (0 : Int) ≤ a + b
    omega
  mul_nonneg := fun {a b} h1 h2 => Int.mul_nonneg h1 h2
  mul_self_nonneg := fun a => by
    show (0 : Int) ≤ a * a
    rcases Int.le_total 0 a with h | h
    · exact Int.mul_nonneg h h
    · have := Int.mul_nonneg (Int.neg_nonneg_of_nonpos h) (Int.neg_nonneg_of_nonpos h)
      rwa [Int.neg_mul_neg] at this
  div_nonneg := fun {a b} h1 h2 => by
    have := Int.ediv_nonneg h1 (Int.le_of_lt h2)
    show (0 : Int) ≤ a / b + 1
    omega
  abs_nonneg := fun a => by show (0 : Int) ≤ (Int.natAbs a : Int); omega
  sqrt_nonneg := fun h => h
  sqrt_pos := fun h => h
  le_max_left := fun a b => by
    show a ≤ (if a ≤ b then b else a)
    split <;> omega
  le_max_right := fun a b => by
    show b ≤ (if a ≤ b then b else a)
    split <;> omega
  min_le_left := fun a b => by
    show (if a ≤ b then a else b) ≤ a
    split <;> omega
  min_le_right := fun a b => by
    show (if a ≤ b then a else b) ≤ b
    split <;> omega
  le_min := fun {a b c} h1 h2 => by
    have h1' : c ≤ a := h1
    have h2' : c ≤ b := h2
    show c ≤ (if a ≤ b then a else b)
    split <;> omega

@[reducible] def cookedRArithNU : RArithNU Int where
  toRArith := cookedRArith
  mul_pos := fun {a b} h1 h2 => Int.mul_pos h1 h2
  div_pos := fun {a b} h1 h2 => by
    have h1' : (0 : Int) < a := h1
    have h2' : (0 : Int) < b := h2
    have := Int.ediv_nonneg (Int.le_of_lt h1') (Int.le_of_lt h2')
    show (0 : Int) < a / b + 1
    omega

/-- each term of the Jensen–Shannon sum is `≥ ½((p − m) + (q − m)) = 0` for positive `p`, `q`
(`log t ≥ 1 − 1/t`) -/
theorem jsTerm_nonneg {p q : ℝ} (hp : 0 < p) (hq : 0 < q) : 0 ≤ jsTerm p q := by
  rw [jsTerm_real]
  set m := 1 / 2 * (p + q) with hm
  have hm0 : 0 < m := by rw [hm]; linarith
  have h1 : p - m ≤ p * Real.log (p / m) := by
    have := Real.one_sub_inv_le_log_of_pos (div_pos hp hm0)
    rw [inv_div] at this
    have h := mul_le_mul_of_nonneg_left this hp.le
    have e : p * (1 - m / p) = p - m := by field_simp
    linarith
  have h2 : q - m ≤ q * Real.log (q / m) := by
    have := Real.one_sub_inv_le_log_of_pos (div_pos hq hm0)
    rw [inv_div] at this
    have h := mul_le_mul_of_nonneg_left this hq.le
    have e : q * (1 - m / q) = q - m := by field_simp
    linarith
  have h3 : (p - m) + (q - m) = 0 := by rw [hm]; ring
  linarith

end Pynn.Metrics
