import PynnVerif.Proofs.GenHeap
import PynnVerif.Model.Search

/-!
# The translated visited-table kernels `utils.has_been_visited` / `utils.mark_visited`

The table is a byte array with one bit per candidate (`table[c >> 3]`, bit `c & 7`).  `bitOf table c` reads that bit;
the search model's `Array Bool` table is the array of these bits.
-/
set_option linter.unusedSectionVars false
set_option linter.unusedSimpArgs false
set_option linter.unusedVariables false
namespace Pynn
open GenK

/-- the visited bit of candidate `c` in the byte table -/
def bitOf (table : Array Int) (c : Nat) : Bool := (table[c / 8]?.getD 0).toNat.testBit (c % 8)

theorem shr_nat (a b : Nat) : shr (a : Int) (b : Int) = some ((a >>> b : Nat) : Int) := by simp [shr]
theorem shl_nat (a b : Nat) : shl (a : Int) (b : Int) = some ((a <<< b : Nat) : Int) := by simp [shl]
theorem band_nat (a b : Nat) : band (a : Int) (b : Int) = some ((a &&& b : Nat) : Int) := by simp [band]
theorem bor_nat (a b : Nat) : bor (a : Int) (b : Int) = some ((a ||| b : Nat) : Int) := by simp [bor]

theorem and_two_pow_ne_zero (x i : Nat) : (x &&& (1 <<< i)) ≠ 0 ↔ x.testBit i = true := by
  rw [Nat.one_shiftLeft]
  constructor
  · intro h
    cases hb : x.testBit i
    · exfalso
      apply h
      apply Nat.eq_of_testBit_eq
      intro j
      simp only [Nat.testBit_and, Nat.testBit_two_pow, Nat.zero_testBit]
      by_cases hij : i = j
      · subst hij; simp [hb]
      · simp [hij]
    · rfl
  · intro hb h
    have := congrArg (fun y => y.testBit i) h
    simp [Nat.testBit_and, Nat.testBit_two_pow, hb] at this

/-- **`has_been_visited`**: for a candidate `c ≥ 0` whose byte exists and a table of non-negative bytes, the translated
kernel reads inside the table and answers non-zero iff bit `c` is set. -/
theorem has_been_visited_refines (table : Array Int) (c : Nat) (fuel : Nat) (hc : c / 8 < table.size)
    (hb : ∀ j (h : j < table.size), 0 ≤ table[j]) :
    ∃ r, GenK.has_been_visited fuel table (c : Int) = some r ∧ (r ≠ 0 ↔ bitOf table c = true) := by
  obtain ⟨x, hx⟩ := Int.eq_ofNat_of_zero_le (hb _ hc)
  have e3 : (3 : Int) = ((3 : Nat) : Int) := rfl
  have e7 : (7 : Int) = ((7 : Nat) : Int) := rfl
  have e1 : (1 : Int) = ((1 : Nat) : Int) := rfl
  have hs : c >>> 3 = c / 8 := by rw [Nat.shiftRight_eq_div_pow]
  have ha : c &&& 7 = c % 8 := by
    have : (7 : Nat) = 2 ^ 3 - 1 := rfl
    rw [this, Nat.and_two_pow_sub_one_eq_mod]
  unfold GenK.has_been_visited
  simp only [e3, e7, e1, shr_nat, shl_nat, band_nat, Option.bind_eq_bind, Option.bind_some, hs, ha, rd_lt table _ hc, hx,
    Option.pure_def, Option.some.injEq]
  refine ⟨_, rfl, ?_⟩
  have : bitOf table c = x.testBit (c % 8) := by simp [bitOf, hc, hx]
  rw [this, ← and_two_pow_ne_zero]
  omega

/-- **`mark_visited`**: sets bit `c` and no other; bytes stay bytes. -/
theorem mark_visited_refines (table : Array Int) (c : Nat) (fuel : Nat) (hc : c / 8 < table.size)
    (hb : ∀ j (h : j < table.size), 0 ≤ table[j]) :
    ∃ table', GenK.mark_visited fuel table (c : Int) = some table' ∧ table'.size = table.size ∧
      (∀ j (h : j < table'.size), 0 ≤ table'[j]) ∧
      (∀ B, (∀ j (h : j < table.size), table[j] < 2 ^ B) → 8 ≤ B → ∀ j (h : j < table'.size), table'[j] < 2 ^ B) ∧
      ∀ c', bitOf table' c' = (bitOf table c' || c' == c) := by
  obtain ⟨x, hx⟩ := Int.eq_ofNat_of_zero_le (hb _ hc)
  have e3 : (3 : Int) = ((3 : Nat) : Int) := rfl
  have e7 : (7 : Int) = ((7 : Nat) : Int) := rfl
  have e1 : (1 : Int) = ((1 : Nat) : Int) := rfl
  have hs : c >>> 3 = c / 8 := by rw [Nat.shiftRight_eq_div_pow]
  have ha : c &&& 7 = c % 8 := by
    have : (7 : Nat) = 2 ^ 3 - 1 := rfl
    rw [this, Nat.and_two_pow_sub_one_eq_mod]
  unfold GenK.mark_visited
  simp only [e3, e7, e1, shr_nat, shl_nat, bor_nat, band_nat, Option.bind_eq_bind, Option.bind_some, hs, ha,
    rd_lt table _ hc, hx, wr_lt table _ _ hc, Option.pure_def]
  refine ⟨_, rfl, by simp, ?_, ?_, ?_⟩
  · intro j h
    simp only [Array.size_setIfInBounds] at h
    rw [Array.getElem_setIfInBounds]; split
    · omega
    · exact hb j h
  · intro B hB h3 j h
    simp only [Array.size_setIfInBounds] at h
    rw [Array.getElem_setIfInBounds]; split
    · have hxB : x < 2 ^ B := by have := hB _ hc; rw [hx] at this; exact_mod_cast this
      have hm : 1 <<< (c % 8) < 2 ^ B := by
        rw [Nat.one_shiftLeft]
        exact Nat.pow_lt_pow_right (by omega) (by have := Nat.mod_lt c (show 8 > 0 by omega); omega)
      have := Nat.or_lt_two_pow hxB hm
      exact_mod_cast this
    · exact hB j h
  · intro c'
    simp only [bitOf]
    by_cases hj : c' / 8 = c / 8
    · have h1 : (table.setIfInBounds (c / 8) ((x ||| 1 <<< (c % 8) : Nat) : Int))[c' / 8]?
          = some ((x ||| 1 <<< (c % 8) : Nat) : Int) := by
        rw [hj]; simp [hc]
      have h2 : table[c' / 8]? = some (x : Int) := by rw [hj]; simp [hc, hx]
      rw [h1, h2]
      simp only [Option.getD_some, Int.toNat_natCast, Nat.testBit_or, Nat.one_shiftLeft, Nat.testBit_two_pow]
      by_cases hcc : c' = c
      · subst hcc; simp
      · have : ¬ c % 8 = c' % 8 := by omega
        simp [this, hcc]
    · have h1 : (table.setIfInBounds (c / 8) ((x ||| 1 <<< (c % 8) : Nat) : Int))[c' / 8]? = table[c' / 8]? := by
        rw [Array.getElem?_setIfInBounds]; simp [Ne.symm hj]
      have hcc : ¬ c' = c := by intro h; apply hj; rw [h]
      rw [h1]; simp [hcc]

/-- the search model's `Array Bool` table held in a byte table: one entry per bit -/
def visOf (table : Array Int) : Array Bool := Array.ofFn (n := 8 * table.size) (fun c => bitOf table c.val)

theorem visited_visOf (table : Array Int) (c : Nat) : visited (visOf table) c = bitOf table c := by
  unfold visited visOf
  by_cases h : c < 8 * table.size
  · simp [h]
  · have : ¬ c / 8 < table.size := by omega
    simp [h, bitOf, this]

theorem visOf_mark (table table' : Array Int) (c : Nat) (hs : table'.size = table.size) (hc : c / 8 < table.size)
    (h : ∀ c', bitOf table' c' = (bitOf table c' || c' == c)) : visOf table' = mark (visOf table) c := by
  have hm : mark (visOf table) c = (visOf table).setIfInBounds c true := rfl
  rw [hm]
  apply Array.ext
  · simp [visOf, hs]
  · intro j h1 h2
    have hj : j < 8 * table'.size := by simpa [visOf] using h1
    have a1 : (visOf table')[j] = bitOf table' j := by simp [visOf]
    have hj' : j < (visOf table).size := by simp [visOf]; omega
    have a2 : ((visOf table).setIfInBounds c true)[j] = if c = j then true else bitOf table j := by
      rw [Array.getElem_setIfInBounds hj']
      split
      · rfl
      · simp [visOf]
    rw [a1, a2, h]
    by_cases hjc : c = j
    · subst hjc; simp
    · have : ¬ j = c := fun e => hjc e.symm
      simp [hjc, this]

end Pynn
