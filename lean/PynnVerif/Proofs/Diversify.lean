import PynnVerif.Model.Diversify
import Mathlib.Order.Defs.LinearOrder

/-! # Lemmas about the diversification kernels and `degree_prune_internal` -/
namespace Pynn.Div
variable {P : Type} [LinearOrder P]

/-! ## insertion sort -/

omit [LinearOrder P] in
theorem insertBy_perm {α : Type} (le : α → α → Bool) (x : α) (l : List α) : (insertBy le x l).Perm (x :: l) := by
  induction l with
  | nil => simp [insertBy]
  | cons y ys ih =>
    rw [insertBy]
    split
    · exact List.Perm.refl _
    · exact (ih.cons y).trans (List.Perm.swap x y ys)

omit [LinearOrder P] in
theorem isort_perm {α : Type} (le : α → α → Bool) (l : List α) : (isort le l).Perm l := by
  induction l with
  | nil => simp [isort]
  | cons x l ih =>
    show (insertBy le x (isort le l)).Perm (x :: l)
    exact (insertBy_perm le x _).trans (ih.cons x)

omit [LinearOrder P] in
@[simp] theorem mem_isort {α : Type} (le : α → α → Bool) (l : List α) (a : α) : a ∈ isort le l ↔ a ∈ l :=
  (isort_perm le l).mem_iff

omit [LinearOrder P] in
theorem insertBy_pairwise {α : Type} (le : α → α → Bool)
    (trans : ∀ a b c, le a b = true → le b c = true → le a c = true)
    (total : ∀ a b, le a b = true ∨ le b a = true) (x : α) (l : List α)
    (h : l.Pairwise (fun a b => le a b = true)) : (insertBy le x l).Pairwise (fun a b => le a b = true) := by
  induction l with
  | nil => simp [insertBy]
  | cons y ys ih =>
    have hp := List.pairwise_cons.mp h
    rw [insertBy]
    split
    · rename_i hxy
      refine List.pairwise_cons.mpr ⟨?_, h⟩
      intro z hz
      rcases List.mem_cons.mp hz with rfl | hz
      · exact hxy
      · exact trans _ _ _ hxy (hp.1 z hz)
    · rename_i hxy
      have hyx : le y x = true := by
        rcases total x y with h | h
        · exact absurd h hxy
        · exact h
      refine List.pairwise_cons.mpr ⟨?_, ih hp.2⟩
      intro z hz
      rcases List.mem_cons.mp ((insertBy_perm le x ys).mem_iff.mp hz) with rfl | hz
      · exact hyx
      · exact hp.1 z hz

omit [LinearOrder P] in
theorem isort_pairwise {α : Type} (le : α → α → Bool)
    (trans : ∀ a b c, le a b = true → le b c = true → le a c = true)
    (total : ∀ a b, le a b = true ∨ le b a = true) (l : List α) :
    (isort le l).Pairwise (fun a b => le a b = true) := by
  induction l with
  | nil => simp [isort]
  | cons x l ih => exact insertBy_pairwise le trans total x _ ih

/-- `l` occludes `j`: the test of both kernel forms,
`len l > FLOAT32_EPS and dist(data[nbr j], data[nbr l]) < len j`. -/
def Occ (eps : P) (dist : Int → Int → P) (nbr : Nat → Int) (len : Nat → P) (l j : Nat) : Prop :=
  eps < len l ∧ dist (nbr j) (nbr l) < len j

/-- The occlusion rule for a set `R` of storage positions and a visiting order:
`j ∈ R ↔ ¬ ∃ l ∈ R, l visited before j ∧ eps < len l ∧ dist (nbr j) (nbr l) < len j`.
("visited before `j`" = member of the prefix `pre` of the visiting order that precedes `j`.) -/
def Rule (eps : P) (dist : Int → Int → P) (nbr : Nat → Int) (len : Nat → P) (order : List Nat)
    (R : Nat → Prop) : Prop :=
  ∀ pre j post, order = pre ++ j :: post →
    (R j ↔ ¬ ∃ l ∈ pre, R l ∧ eps < len l ∧ dist (nbr j) (nbr l) < len j)

/-! ## the inner scans -/

theorem scanCsr_true (eps : P) (dist : Int → Int → P) (nbr : Nat → Int) (len : Nat → P)
    (ret : Nat → Bool) (j : Nat) (pre : List Nat) (c : Nat) :
    (scanCsr eps dist (fun _ => true) nbr len ret j pre c).1 = true ↔
      ¬ ∃ l ∈ pre, ret l = true ∧ eps < len l ∧ dist (nbr j) (nbr l) < len j := by
  induction pre generalizing c with
  | nil => simp [scanCsr]
  | cons l pre ih =>
    unfold scanCsr
    by_cases hr : ret l = true
    · by_cases ho : eps < len l ∧ dist (nbr j) (nbr l) < len j
      · simp only [hr, ho, and_self, ↓reduceIte]
        constructor
        · intro h; cases h
        · intro h; exact absurd ⟨l, List.mem_cons_self, hr, ho⟩ h
      · simp only [hr, ho, ↓reduceIte, ih]
        constructor
        · rintro h ⟨x, hx, hx2⟩
          rcases List.mem_cons.mp hx with rfl | hx
          · exact ho hx2.2
          · exact h ⟨x, hx, hx2⟩
        · rintro h ⟨x, hx, hx2⟩
          exact h ⟨x, List.mem_cons_of_mem _ hx, hx2⟩
    · simp only [hr, Bool.false_eq_true, ↓reduceIte, ih]
      constructor
      · rintro h ⟨x, hx, hx2⟩
        rcases List.mem_cons.mp hx with rfl | hx
        · exact hr hx2.1
        · exact h ⟨x, hx, hx2⟩
      · rintro h ⟨x, hx, hx2⟩
        exact h ⟨x, List.mem_cons_of_mem _ hx, hx2⟩

theorem scanCsr_false (eps : P) (dist : Int → Int → P) (nbr : Nat → Int) (len : Nat → P)
    (ret : Nat → Bool) (j : Nat) (pre : List Nat) (c : Nat) :
    (scanCsr eps dist (fun _ => false) nbr len ret j pre c).1 = true := by
  induction pre generalizing c with
  | nil => simp [scanCsr]
  | cons l pre ih =>
    unfold scanCsr
    split
    · split
      · simp [ih]
      · exact ih c
    · exact ih c

/-- the `retained[]`-filtered scan of the CSR form is the scan over `new_*` of the list form -/
theorem scanCsr_eq_scanNew (eps : P) (dist : Int → Int → P) (draw : Nat → Bool) (nbr : Nat → Int)
    (len : Nat → P) (ret : Nat → Bool) (j : Nat) (pre : List Nat) (c : Nat) :
    scanCsr eps dist draw nbr len ret j pre c =
      scanNew eps dist draw (nbr j) (len j) ((pre.filter ret).map (fun i => (nbr i, len i))) c := by
  induction pre generalizing c with
  | nil => simp [scanCsr, scanNew]
  | cons l pre ih =>
    unfold scanCsr
    by_cases hr : ret l = true
    · simp only [hr, ↓reduceIte, List.filter_cons_of_pos, List.map_cons]
      rw [scanNew]
      simp only [ih]
    · simp only [hr, Bool.false_eq_true, ↓reduceIte, ih]
      rw [List.filter_cons_of_neg hr]

/-! ## the outer loop of the CSR form -/

theorem csrLoop_frame (eps : P) (dist : Int → Int → P) (draw : Nat → Bool) (nbr : Nat → Int)
    (len : Nat → P) (pre rest : List Nat) (ret : Nat → Bool) (c : Nat) (x : Nat) (hx : x ∉ rest) :
    csrLoop eps dist draw nbr len pre rest ret c x = ret x := by
  induction rest generalizing pre ret c with
  | nil => simp [csrLoop]
  | cons j rest ih =>
    simp only [List.mem_cons, not_or] at hx
    rw [csrLoop, ih _ _ _ hx.2]
    split
    · rfl
    · simp [hx.1]

/-- a removed position was visited -/
theorem csrLoop_false_mem (eps : P) (dist : Int → Int → P) (draw : Nat → Bool) (nbr : Nat → Int)
    (len : Nat → P) (pre rest : List Nat) (ret : Nat → Bool) (c : Nat) (x : Nat)
    (h : csrLoop eps dist draw nbr len pre rest ret c x = false) : x ∈ rest ∨ ret x = false := by
  by_cases hx : x ∈ rest
  · exact Or.inl hx
  · rw [csrLoop_frame _ _ _ _ _ _ _ _ _ _ hx] at h; exact Or.inr h

theorem csrLoop_rule (eps : P) (dist : Int → Int → P) (nbr : Nat → Int) (len : Nat → P)
    (pre rest : List Nat) (ret : Nat → Bool) (c : Nat)
    (hnd : (pre ++ rest).Nodup) (htrue : ∀ x ∈ rest, ret x = true)
    (a : List Nat) (j : Nat) (b : List Nat) (hsplit : rest = a ++ j :: b) :
    (csrLoop eps dist (fun _ => true) nbr len pre rest ret c j = true ↔
      ¬ ∃ l ∈ pre ++ a, csrLoop eps dist (fun _ => true) nbr len pre rest ret c l = true ∧
          eps < len l ∧ dist (nbr j) (nbr l) < len j) := by
  induction rest generalizing pre ret c a with
  | nil => simp at hsplit
  | cons j0 rest ih =>
    have hnd' : ((pre ++ [j0]) ++ rest).Nodup := by simpa using hnd
    have hj0pre : j0 ∉ pre := by
      intro h
      have := (List.nodup_append.mp hnd).2.2 j0 h j0 List.mem_cons_self
      exact this rfl
    have hj0rest : j0 ∉ rest := by
      have := (List.nodup_append.mp hnd).2.1
      exact (List.nodup_cons.mp this).1
    rw [csrLoop]
    cases a with
    | nil =>
      simp only [List.nil_append, List.cons.injEq] at hsplit
      obtain ⟨rfl, rfl⟩ := hsplit
      rw [csrLoop_frame _ _ _ _ _ _ _ _ _ _ hj0rest]
      have hpre : ∀ l ∈ pre, csrLoop eps dist (fun _ => true) nbr len (pre ++ [j0]) rest
          (if (scanCsr eps dist (fun _ => true) nbr len ret j0 pre c).1 = true then ret
            else fun x => if x = j0 then false else ret x)
          (scanCsr eps dist (fun _ => true) nbr len ret j0 pre c).2 l = ret l := by
        intro l hl
        have hlrest : l ∉ rest := by
          intro h
          exact (List.nodup_append.mp hnd).2.2 l hl l (List.mem_cons_of_mem _ h) rfl
        rw [csrLoop_frame _ _ _ _ _ _ _ _ _ _ hlrest]
        have : l ≠ j0 := fun h => hj0pre (h ▸ hl)
        split <;> simp [this]
      simp only [List.append_nil]
      have hs := scanCsr_true eps dist nbr len ret j0 pre c
      by_cases hr : (scanCsr eps dist (fun _ => true) nbr len ret j0 pre c).1 = true
      · simp only [hr, ↓reduceIte, htrue j0 List.mem_cons_self, true_iff]
        rintro ⟨l, hl, h1, h2⟩
        have := hpre l hl
        simp only [hr, ↓reduceIte] at this
        exact (hs.mp hr) ⟨l, hl, this ▸ h1, h2⟩
      · simp only [hr, ↓reduceIte, Bool.false_eq_true, false_iff, Classical.not_not]
        have := Classical.not_not.mp (fun h => hr (hs.mpr h))
        obtain ⟨l, hl, h1, h2⟩ := this
        refine ⟨l, hl, ?_, h2⟩
        have := hpre l hl
        simp only [hr, Bool.false_eq_true, ↓reduceIte] at this
        rw [this]; exact h1
    | cons a0 a' =>
      simp only [List.cons_append, List.cons.injEq] at hsplit
      obtain ⟨rfl, hrest⟩ := hsplit
      have htrue' : ∀ x ∈ rest,
          (if (scanCsr eps dist (fun _ => true) nbr len ret j0 pre c).1 = true then ret
            else fun x => if x = j0 then false else ret x) x = true := by
        intro x hx
        have hne : x ≠ j0 := fun h => hj0rest (h ▸ hx)
        split
        · exact htrue x (List.mem_cons_of_mem _ hx)
        · simp [hne, htrue x (List.mem_cons_of_mem _ hx)]
      have := ih (pre ++ [j0]) _ (scanCsr eps dist (fun _ => true) nbr len ret j0 pre c).2 hnd' htrue' a' hrest
      simpa using this

/-! ## agreement of the two forms (any draw stream) -/

theorem csrLoop_eq_divLoop (eps : P) (dist : Int → Int → P) (draw : Nat → Bool) (nbr : Nat → Int)
    (len : Nat → P) (pre rest : List Nat) (ret : Nat → Bool) (c : Nat)
    (hnd : (pre ++ rest).Nodup) (htrue : ∀ x ∈ rest, ret x = true) (hreal : ∀ x ∈ rest, 0 ≤ nbr x) :
    let f := csrLoop eps dist draw nbr len pre rest ret c
    let out := divLoop eps dist draw (rest.map (fun i => (nbr i, len i)))
      ((pre.filter ret).map (fun i => (nbr i, len i))) c
    out.2 = rest.map f ∧ out.1 = ((pre ++ rest).filter f).map (fun i => (nbr i, len i)) := by
  induction rest generalizing pre ret c with
  | nil => simp [csrLoop, divLoop]
  | cons j0 rest ih =>
    have hnd' : ((pre ++ [j0]) ++ rest).Nodup := by simpa using hnd
    have hj0pre : j0 ∉ pre := by
      intro h
      exact (List.nodup_append.mp hnd).2.2 j0 h j0 List.mem_cons_self rfl
    have hj0rest : j0 ∉ rest := (List.nodup_cons.mp (List.nodup_append.mp hnd).2.1).1
    have hge : ¬ nbr j0 < 0 := by have := hreal j0 List.mem_cons_self; omega
    intro f out
    have hs := scanCsr_eq_scanNew eps dist draw nbr len ret j0 pre c
    by_cases hr : (scanCsr eps dist draw nbr len ret j0 pre c).1 = true
    · -- kept
      have hf : f = csrLoop eps dist draw nbr len (pre ++ [j0]) rest ret
          (scanCsr eps dist draw nbr len ret j0 pre c).2 := by
        show csrLoop eps dist draw nbr len pre (j0 :: rest) ret c = _
        rw [csrLoop]; simp only [hr, ↓reduceIte]
      have hfil : ((pre ++ [j0]).filter ret).map (fun i => (nbr i, len i)) =
          (pre.filter ret).map (fun i => (nbr i, len i)) ++ [(nbr j0, len j0)] := by
        simp [List.filter_append, htrue j0 List.mem_cons_self]
      have hout : out = ((divLoop eps dist draw (rest.map (fun i => (nbr i, len i)))
            (((pre ++ [j0]).filter ret).map (fun i => (nbr i, len i)))
            (scanCsr eps dist draw nbr len ret j0 pre c).2).1,
          true :: (divLoop eps dist draw (rest.map (fun i => (nbr i, len i)))
            (((pre ++ [j0]).filter ret).map (fun i => (nbr i, len i)))
            (scanCsr eps dist draw nbr len ret j0 pre c).2).2) := by
        show divLoop eps dist draw ((j0 :: rest).map _) _ c = _
        rw [List.map_cons, divLoop]
        simp only [hge, ↓reduceIte, ← hs, hr, hfil]
      obtain ⟨ih1, ih2⟩ := ih (pre ++ [j0]) ret (scanCsr eps dist draw nbr len ret j0 pre c).2 hnd'
        (fun x hx => htrue x (List.mem_cons_of_mem _ hx)) (fun x hx => hreal x (List.mem_cons_of_mem _ hx))
      have hfj0 : f j0 = true := by
        rw [hf, csrLoop_frame _ _ _ _ _ _ _ _ _ _ hj0rest]; exact htrue j0 List.mem_cons_self
      rw [hout]
      refine ⟨?_, ?_⟩
      · simp only [List.map_cons, hfj0, List.cons.injEq, true_and]; rw [hf]; exact ih1
      · simp only; rw [ih2, hf]; simp
    · -- removed
      have hf : f = csrLoop eps dist draw nbr len (pre ++ [j0]) rest
          (fun x => if x = j0 then false else ret x)
          (scanCsr eps dist draw nbr len ret j0 pre c).2 := by
        show csrLoop eps dist draw nbr len pre (j0 :: rest) ret c = _
        rw [csrLoop]; simp only [hr, Bool.false_eq_true, ↓reduceIte]
      have hfil : ((pre ++ [j0]).filter (fun x => if x = j0 then false else ret x)).map (fun i => (nbr i, len i)) =
          (pre.filter ret).map (fun i => (nbr i, len i)) := by
        rw [List.filter_append]
        have : pre.filter (fun x => if x = j0 then false else ret x) = pre.filter ret := by
          apply List.filter_congr
          intro x hx
          have : x ≠ j0 := fun h => hj0pre (h ▸ hx)
          simp [this]
        rw [this]; simp
      have hout : out = ((divLoop eps dist draw (rest.map (fun i => (nbr i, len i)))
            (((pre ++ [j0]).filter (fun x => if x = j0 then false else ret x)).map (fun i => (nbr i, len i)))
            (scanCsr eps dist draw nbr len ret j0 pre c).2).1,
          false :: (divLoop eps dist draw (rest.map (fun i => (nbr i, len i)))
            (((pre ++ [j0]).filter (fun x => if x = j0 then false else ret x)).map (fun i => (nbr i, len i)))
            (scanCsr eps dist draw nbr len ret j0 pre c).2).2) := by
        show divLoop eps dist draw ((j0 :: rest).map _) _ c = _
        rw [List.map_cons, divLoop]
        simp only [hge, ↓reduceIte, ← hs, hr, hfil, Bool.false_eq_true]
      obtain ⟨ih1, ih2⟩ := ih (pre ++ [j0]) (fun x => if x = j0 then false else ret x)
        (scanCsr eps dist draw nbr len ret j0 pre c).2 hnd'
        (fun x hx => by
          have : x ≠ j0 := fun h => hj0rest (h ▸ hx)
          simp [this, htrue x (List.mem_cons_of_mem _ hx)])
        (fun x hx => hreal x (List.mem_cons_of_mem _ hx))
      have hfj0 : f j0 = false := by
        rw [hf, csrLoop_frame _ _ _ _ _ _ _ _ _ _ hj0rest]; simp
      rw [hout]
      refine ⟨?_, ?_⟩
      · simp only [List.map_cons, hfj0, List.cons.injEq, true_and]; rw [hf]; exact ih1
      · simp only; rw [ih2, hf]; simp

/-! ## top level: the `argsort` form -/

theorem diversifyCsr_rule (eps : P) (dist : Int → Int → P) (nbr : Nat → Int) (len : Nat → P)
    (order : List Nat) (hnd : order.Nodup) :
    Rule eps dist nbr len order
      (fun j => diversifyCsr eps dist (fun _ => true) nbr len order j = true) := by
  intro pre j post hsplit
  cases order with
  | nil => simp at hsplit
  | cons o rest =>
    have hor : o ∉ rest := (List.nodup_cons.mp hnd).1
    simp only [diversifyCsr]
    cases pre with
    | nil =>
      simp only [List.nil_append, List.cons.injEq] at hsplit
      obtain ⟨rfl, rfl⟩ := hsplit
      rw [csrLoop_frame _ _ _ _ _ _ _ _ _ _ hor]
      simp
    | cons p pre' =>
      simp only [List.cons_append, List.cons.injEq] at hsplit
      obtain ⟨rfl, hrest⟩ := hsplit
      have := csrLoop_rule eps dist nbr len [o] rest (fun _ => true) 0 (by simpa using hnd)
        (by simp) pre' j post hrest
      simpa using this

theorem diversifyCsr_first (eps : P) (dist : Int → Int → P) (draw : Nat → Bool) (nbr : Nat → Int)
    (len : Nat → P) (o : Nat) (rest : List Nat) (hnd : (o :: rest).Nodup) :
    diversifyCsr eps dist draw nbr len (o :: rest) o = true := by
  simp only [diversifyCsr]
  rw [csrLoop_frame _ _ _ _ _ _ _ _ _ _ (List.nodup_cons.mp hnd).1]

theorem csrLoop_prob_zero (eps : P) (dist : Int → Int → P) (nbr : Nat → Int) (len : Nat → P)
    (pre rest : List Nat) (ret : Nat → Bool) (c : Nat) :
    csrLoop eps dist (fun _ => false) nbr len pre rest ret c = ret := by
  induction rest generalizing pre ret c with
  | nil => simp [csrLoop]
  | cons j rest ih =>
    rw [csrLoop]
    simp only [scanCsr_false, ↓reduceIte]
    exact ih _ _ _

theorem diversifyCsr_prob_zero (eps : P) (dist : Int → Int → P) (nbr : Nat → Int) (len : Nat → P)
    (order : List Nat) (j : Nat) :
    diversifyCsr eps dist (fun _ => false) nbr len order j = true := by
  cases order with
  | nil => rfl
  | cons o rest => simp [diversifyCsr, csrLoop_prob_zero]

/-- a removed position is one of the visited positions (the write-back loop over `order`
reaches every removed entry) -/
theorem diversifyCsr_false_mem (eps : P) (dist : Int → Int → P) (draw : Nat → Bool) (nbr : Nat → Int)
    (len : Nat → P) (order : List Nat) (x : Nat)
    (h : diversifyCsr eps dist draw nbr len order x = false) : x ∈ order := by
  cases order with
  | nil => simp [diversifyCsr] at h
  | cons o rest =>
    simp only [diversifyCsr] at h
    rcases csrLoop_false_mem _ _ _ _ _ _ _ _ _ _ h with h | h
    · exact List.mem_cons_of_mem _ h
    · simp at h

/-! ## every draw stream: a removed position has a retained occluder visited earlier -/

theorem scanCsr_false_occ (eps : P) (dist : Int → Int → P) (draw : Nat → Bool) (nbr : Nat → Int)
    (len : Nat → P) (ret : Nat → Bool) (j : Nat) (pre : List Nat) (c : Nat)
    (h : (scanCsr eps dist draw nbr len ret j pre c).1 = false) :
    ∃ l ∈ pre, ret l = true ∧ eps < len l ∧ dist (nbr j) (nbr l) < len j := by
  induction pre generalizing c with
  | nil => simp [scanCsr] at h
  | cons l pre ih =>
    unfold scanCsr at h
    by_cases hr : ret l = true
    · by_cases ho : eps < len l ∧ dist (nbr j) (nbr l) < len j
      · exact ⟨l, List.mem_cons_self, hr, ho⟩
      · simp only [hr, ho, ↓reduceIte] at h
        obtain ⟨x, hx, hx2⟩ := ih c h
        exact ⟨x, List.mem_cons_of_mem _ hx, hx2⟩
    · simp only [hr, Bool.false_eq_true, ↓reduceIte] at h
      obtain ⟨x, hx, hx2⟩ := ih c h
      exact ⟨x, List.mem_cons_of_mem _ hx, hx2⟩

theorem csrLoop_false_occ (eps : P) (dist : Int → Int → P) (draw : Nat → Bool) (nbr : Nat → Int)
    (len : Nat → P) (pre rest : List Nat) (ret : Nat → Bool) (c : Nat)
    (hnd : (pre ++ rest).Nodup) (htrue : ∀ x ∈ rest, ret x = true)
    (a : List Nat) (j : Nat) (b : List Nat) (hsplit : rest = a ++ j :: b)
    (h : csrLoop eps dist draw nbr len pre rest ret c j = false) :
    ∃ l ∈ pre ++ a, csrLoop eps dist draw nbr len pre rest ret c l = true ∧
        eps < len l ∧ dist (nbr j) (nbr l) < len j := by
  induction rest generalizing pre ret c a with
  | nil => simp at hsplit
  | cons j0 rest ih =>
    have hnd' : ((pre ++ [j0]) ++ rest).Nodup := by simpa using hnd
    have hj0pre : j0 ∉ pre := by
      intro h
      exact (List.nodup_append.mp hnd).2.2 j0 h j0 List.mem_cons_self rfl
    have hj0rest : j0 ∉ rest := (List.nodup_cons.mp (List.nodup_append.mp hnd).2.1).1
    rw [csrLoop] at h ⊢
    cases a with
    | nil =>
      simp only [List.nil_append, List.cons.injEq] at hsplit
      obtain ⟨rfl, rfl⟩ := hsplit
      rw [csrLoop_frame _ _ _ _ _ _ _ _ _ _ hj0rest] at h
      by_cases hr : (scanCsr eps dist draw nbr len ret j0 pre c).1 = true
      · simp only [hr, ↓reduceIte, htrue j0 List.mem_cons_self] at h
        cases h
      · obtain ⟨l, hl, h1, h2⟩ := scanCsr_false_occ eps dist draw nbr len ret j0 pre c (by simpa using hr)
        refine ⟨l, by simpa using hl, ?_, h2⟩
        have hlrest : l ∉ rest := by
          intro h
          exact (List.nodup_append.mp hnd).2.2 l hl l (List.mem_cons_of_mem _ h) rfl
        rw [csrLoop_frame _ _ _ _ _ _ _ _ _ _ hlrest]
        have : l ≠ j0 := fun h => hj0pre (h ▸ hl)
        simp [hr, this, h1]
    | cons a0 a' =>
      simp only [List.cons_append, List.cons.injEq] at hsplit
      obtain ⟨rfl, hrest⟩ := hsplit
      have htrue' : ∀ x ∈ rest,
          (if (scanCsr eps dist draw nbr len ret j0 pre c).1 = true then ret
            else fun x => if x = j0 then false else ret x) x = true := by
        intro x hx
        have hne : x ≠ j0 := fun h => hj0rest (h ▸ hx)
        split
        · exact htrue x (List.mem_cons_of_mem _ hx)
        · simp [hne, htrue x (List.mem_cons_of_mem _ hx)]
      have := ih (pre ++ [j0]) _ (scanCsr eps dist draw nbr len ret j0 pre c).2 hnd' htrue' a' hrest h
      simpa using this

/-- **every draw stream**: a position that is not retained is occluded by a *retained* position
visited before it (the converse needs the draw to say "prune": `diversifyCsr_rule`) -/
theorem diversifyCsr_false_occ (eps : P) (dist : Int → Int → P) (draw : Nat → Bool) (nbr : Nat → Int)
    (len : Nat → P) (order : List Nat) (hnd : order.Nodup) (pre : List Nat) (j : Nat) (post : List Nat)
    (hsplit : order = pre ++ j :: post)
    (h : diversifyCsr eps dist draw nbr len order j = false) :
    ∃ l ∈ pre, diversifyCsr eps dist draw nbr len order l = true ∧
        eps < len l ∧ dist (nbr j) (nbr l) < len j := by
  cases order with
  | nil => simp at hsplit
  | cons o rest =>
    have hor : o ∉ rest := (List.nodup_cons.mp hnd).1
    simp only [diversifyCsr] at h ⊢
    cases pre with
    | nil =>
      simp only [List.nil_append, List.cons.injEq] at hsplit
      obtain ⟨rfl, rfl⟩ := hsplit
      rw [csrLoop_frame _ _ _ _ _ _ _ _ _ _ hor] at h
      cases h
    | cons p pre' =>
      simp only [List.cons_append, List.cons.injEq] at hsplit
      obtain ⟨rfl, hrest⟩ := hsplit
      have := csrLoop_false_occ eps dist draw nbr len [o] rest (fun _ => true) 0 (by simpa using hnd)
        (by simp) pre' j post hrest h
      simpa using this

/-! ## uniqueness of the rule, idempotence -/

theorem rule_unique_aux (eps : P) (dist : Int → Int → P) (nbr : Nat → Int) (len : Nat → P)
    (order : List Nat) (R R' : Nat → Prop)
    (h : Rule eps dist nbr len order R) (h' : Rule eps dist nbr len order R') :
    ∀ n pre j post, pre.length = n → order = pre ++ j :: post → (R j ↔ R' j) := by
  intro n
  induction n using Nat.strongRecOn with
  | _ n ih =>
    intro pre j post hlen hsplit
    rw [h pre j post hsplit, h' pre j post hsplit]
    apply not_congr
    constructor
    · rintro ⟨l, hl, hR, ho⟩
      obtain ⟨s, t, rfl⟩ := List.append_of_mem hl
      have := ih s.length (by simp at hlen; omega) s l (t ++ j :: post) rfl (by simp [hsplit])
      exact ⟨l, hl, this.mp hR, ho⟩
    · rintro ⟨l, hl, hR, ho⟩
      obtain ⟨s, t, rfl⟩ := List.append_of_mem hl
      have := ih s.length (by simp at hlen; omega) s l (t ++ j :: post) rfl (by simp [hsplit])
      exact ⟨l, hl, this.mpr hR, ho⟩

theorem rule_unique_mem (eps : P) (dist : Int → Int → P) (nbr : Nat → Int) (len : Nat → P)
    (order : List Nat) (R R' : Nat → Prop)
    (h : Rule eps dist nbr len order R) (h' : Rule eps dist nbr len order R') :
    ∀ j ∈ order, (R j ↔ R' j) := by
  intro j hj
  obtain ⟨s, t, rfl⟩ := List.append_of_mem hj
  exact rule_unique_aux eps dist nbr len _ R R' h h' s.length s j t rfl rfl

theorem append_cons_inj {α : Type} (a a' b b' : List α) (j : α)
    (h : a ++ j :: b = a' ++ j :: b') (hj : j ∉ a) (hj' : j ∉ a') : a = a' ∧ b = b' := by
  induction a generalizing a' with
  | nil =>
    cases a' with
    | nil => simpa using h
    | cons y a'' =>
      simp only [List.nil_append, List.cons_append, List.cons.injEq] at h
      exact absurd (h.1 ▸ List.mem_cons_self) hj'
  | cons x a1 ih =>
    cases a' with
    | nil =>
      simp only [List.nil_append, List.cons_append, List.cons.injEq] at h
      exact absurd (h.1 ▸ List.mem_cons_self) hj
    | cons y a'' =>
      simp only [List.cons_append, List.cons.injEq] at h
      obtain ⟨rfl, h⟩ := h
      have := ih a'' h (fun hh => hj (List.mem_cons_of_mem _ hh)) (fun hh => hj' (List.mem_cons_of_mem _ hh))
      exact ⟨by rw [this.1], this.2⟩

theorem diversifyCsr_idempotent (eps : P) (dist : Int → Int → P) (nbr : Nat → Int) (len : Nat → P)
    (order : List Nat) (hnd : order.Nodup) :
    ∀ j ∈ order.filter (diversifyCsr eps dist (fun _ => true) nbr len order),
      diversifyCsr eps dist (fun _ => true) nbr len
        (order.filter (diversifyCsr eps dist (fun _ => true) nbr len order)) j = true := by
  intro j hj
  have hnd' := hnd.filter (diversifyCsr eps dist (fun _ => true) nbr len order)
  have h1 := diversifyCsr_rule eps dist nbr len _ hnd'
  have h0 := diversifyCsr_rule eps dist nbr len order hnd
  have h2 : Rule eps dist nbr len
      (order.filter (diversifyCsr eps dist (fun _ => true) nbr len order)) (fun _ => True) := by
    intro pre' x post' hsplit
    simp only [true_and, true_iff]
    rintro ⟨l, hl, ho⟩
    have hx : x ∈ order.filter (diversifyCsr eps dist (fun _ => true) nbr len order) := by
      rw [hsplit]; simp
    obtain ⟨hxo, hfx⟩ := List.mem_filter.mp hx
    obtain ⟨s, t, rfl⟩ := List.append_of_mem hxo
    have hxs : x ∉ s := by
      intro h
      exact (List.nodup_append.mp hnd).2.2 x h x List.mem_cons_self rfl
    have hxpre' : x ∉ pre' := by
      intro h
      have : (pre' ++ x :: post').Nodup := hsplit ▸ hnd'
      exact (List.nodup_append.mp this).2.2 x h x List.mem_cons_self rfl
    rw [List.filter_append, List.filter_cons_of_pos hfx] at hsplit
    have := append_cons_inj _ _ _ _ x hsplit.symm hxpre'
      (fun h => hxs (List.mem_filter.mp h).1)
    rw [this.1] at hl
    obtain ⟨hls, hfl⟩ := List.mem_filter.mp hl
    exact ((h0 s x t rfl).mp hfx) ⟨l, hls, hfl, ho⟩
  exact (rule_unique_mem eps dist nbr len _ _ _ h1 h2 j hj).mpr trivial

/-! ## top level: the list-append form -/

/-- the stored positions the list form looks at: position 0 and the following entries up to the
first negative index (`break`) -/
def live (row : List (Ent P)) : List (Ent P) :=
  match row with
  | [] => []
  | e :: rest => e :: rest.takeWhile (fun e => decide (0 ≤ e.1))

theorem divLoop_takeWhile (eps : P) (dist : Int → Int → P) (draw : Nat → Bool)
    (rest new : List (Ent P)) (c : Nat) :
    divLoop eps dist draw rest new c =
      ((divLoop eps dist draw (rest.takeWhile (fun e => decide (0 ≤ e.1))) new c).1,
       (divLoop eps dist draw (rest.takeWhile (fun e => decide (0 ≤ e.1))) new c).2 ++
         List.replicate (rest.length - (rest.takeWhile (fun e => decide (0 ≤ e.1))).length) false) := by
  induction rest generalizing new c with
  | nil => simp [divLoop]
  | cons e rest ih =>
    by_cases he : e.1 < 0
    · have : ¬ (0 ≤ e.1) := by omega
      simp [divLoop, he, this]
    · have h0 : 0 ≤ e.1 := by omega
      rw [List.takeWhile_cons_of_pos (by simpa using h0)]
      rw [divLoop, divLoop]
      simp only [he, ↓reduceIte]
      split
      · rw [ih]; simp
      · rw [ih]; simp

/-- entries from the first `-1` on are neither looked at nor kept -/
theorem diversifyList_live (eps : P) (dist : Int → Int → P) (draw : Nat → Bool) (row : List (Ent P)) :
    (diversifyList eps dist draw row).1 = (diversifyList eps dist draw (live row)).1 ∧
    (diversifyList eps dist draw row).2 = (diversifyList eps dist draw (live row)).2 ++
      List.replicate (row.length - (live row).length) false := by
  cases row with
  | nil => simp [diversifyList, live]
  | cons e rest =>
    simp only [diversifyList, live]
    rw [divLoop_takeWhile]
    simp

theorem mem_takeWhile_pos {α : Type} (p : α → Bool) (l : List α) : ∀ x ∈ l.takeWhile p, p x = true := by
  induction l with
  | nil => simp
  | cons a l ih =>
    intro x hx
    by_cases ha : p a = true
    · rw [List.takeWhile_cons_of_pos ha] at hx
      rcases List.mem_cons.mp hx with rfl | hx
      · exact ha
      · exact ih x hx
    · rw [List.takeWhile_cons_of_neg ha] at hx; simp at hx

omit [LinearOrder P] in
theorem live_tail_real (row : List (Ent P)) : ∀ e ∈ (live row).tail, 0 ≤ e.1 := by
  cases row with
  | nil => simp [live]
  | cons e rest =>
    intro x hx
    simp only [live, List.tail_cons] at hx
    simpa using mem_takeWhile_pos _ _ x hx

/-- **agreement of the two forms** for one visiting order and any draw stream -/
theorem diversifyList_eq_csr (eps : P) (dist : Int → Int → P) (draw : Nat → Bool) (nbr : Nat → Int)
    (len : Nat → P) (order : List Nat) (hnd : order.Nodup) (hreal : ∀ x ∈ order.tail, 0 ≤ nbr x) :
    (diversifyList eps dist draw (order.map (fun i => (nbr i, len i)))).2 =
        order.map (diversifyCsr eps dist draw nbr len order) ∧
    (diversifyList eps dist draw (order.map (fun i => (nbr i, len i)))).1 =
        (order.filter (diversifyCsr eps dist draw nbr len order)).map (fun i => (nbr i, len i)) := by
  cases order with
  | nil => simp [diversifyList]
  | cons o rest =>
    have h := csrLoop_eq_divLoop eps dist draw nbr len [o] rest (fun _ => true) 0
      (by simpa using hnd) (by simp) (by simpa using hreal)
    have hfo := diversifyCsr_first eps dist draw nbr len o rest hnd
    simp only [List.filter_cons, List.filter_nil, ↓reduceIte, List.map_cons, List.map_nil] at h
    simp only [diversifyList, List.map_cons, diversifyCsr] at hfo ⊢
    refine ⟨?_, ?_⟩
    · rw [h.1, hfo]
    · rw [h.2]; rfl

theorem divLoop_prefix (eps : P) (dist : Int → Int → P) (draw : Nat → Bool) (rest new : List (Ent P))
    (c : Nat) : ∃ ext, (divLoop eps dist draw rest new c).1 = new ++ ext := by
  induction rest generalizing new c with
  | nil => exact ⟨[], by simp [divLoop]⟩
  | cons e rest ih =>
    rw [divLoop]
    split
    · exact ⟨[], by simp⟩
    · simp only
      split
      · obtain ⟨ext, h⟩ := ih (new ++ [e]) (scanNew eps dist draw e.1 e.2 new c).2
        exact ⟨e :: ext, by simp [h]⟩
      · exact ih _ _

omit [LinearOrder P] in
/-- a stored row is the table of its accessors -/
theorem row_eq_map (dflt : P) (row : List (Ent P)) :
    row = (List.range row.length).map (fun i => (nbrOf row i, lenOf dflt row i)) := by
  apply List.ext_getElem
  · simp
  · intro i h1 h2
    simp [nbrOf, lenOf, h1]

omit [LinearOrder P] in
theorem nbrOf_tail_real (row : List (Ent P)) (hreal : ∀ e ∈ row.tail, 0 ≤ e.1) :
    ∀ x ∈ (List.range row.length).tail, 0 ≤ nbrOf row x := by
  cases row with
  | nil => simp
  | cons e rest =>
    intro x hx
    simp only [List.length_cons, List.range_succ_eq_map, List.tail_cons, List.mem_map,
      List.mem_range] at hx
    obtain ⟨i, hi, rfl⟩ := hx
    have : nbrOf (e :: rest) (i + 1) = rest[i].1 := by simp [nbrOf, hi]
    rw [this]
    exact hreal _ (by simp)

theorem range_split (n j : Nat) (h : j < n) : ∃ post, List.range n = List.range j ++ j :: post := by
  obtain ⟨k, rfl⟩ : ∃ k, n = j + (k + 1) := ⟨n - j - 1, by omega⟩
  rw [List.range_add, List.range_succ_eq_map]
  exact ⟨List.map ((fun x => j + x) ∘ Nat.succ) (List.range k), by simp⟩

/-- the rule for visiting order = storage order, by position -/
theorem rule_range (eps : P) (dist : Int → Int → P) (nbr : Nat → Int) (len : Nat → P) (n : Nat)
    (R : Nat → Prop) (h : Rule eps dist nbr len (List.range n) R) (j : Nat) (hj : j < n) :
    (R j ↔ ¬ ∃ l, l < j ∧ R l ∧ eps < len l ∧ dist (nbr j) (nbr l) < len j) := by
  obtain ⟨post, hp⟩ := range_split n j hj
  rw [h _ _ _ hp]
  simp only [List.mem_range]

/-! ## `degree_prune_internal` -/

theorem sortP_perm (l : List P) : (sortP l).Perm l := isort_perm _ _

theorem sortP_sorted (l : List P) : (sortP l).Pairwise (· ≤ ·) := by
  have := isort_pairwise (fun a b : P => decide (a ≤ b))
    (by intro a b c; simp only [decide_eq_true_eq]; exact le_trans)
    (by intro a b; simp only [decide_eq_true_eq]; exact le_total a b) l
  simpa [sortP] using this

/-- in an ascending list fewer than `i + 1` elements are strictly below the `i`-th -/
theorem sorted_count_lt (s : List P) (hs : s.Pairwise (· ≤ ·)) (i : Nat) (x : P) (hi : s[i]? = some x) :
    (s.filter (fun y => decide (y < x))).length ≤ i := by
  induction s generalizing i with
  | nil => simp at hi
  | cons a s ih =>
    have hp := List.pairwise_cons.mp hs
    cases i with
    | zero =>
      simp only [List.getElem?_cons_zero, Option.some.injEq] at hi
      subst hi
      have : (a :: s).filter (fun y => decide (y < a)) = [] := by
        apply List.filter_eq_nil_iff.mpr
        intro y hy
        simp only [decide_eq_true_eq, not_lt]
        rcases List.mem_cons.mp hy with rfl | hy
        · exact le_refl _
        · exact hp.1 y hy
      simp [this]
    | succ i =>
      simp only [List.getElem?_cons_succ] at hi
      have := ih hp.2 i hi
      rw [List.filter_cons]
      split
      · simp; omega
      · omega

theorem cutValue_mem (m : Nat) (lens : List P) (cut : P) (h : cutValue m lens = some cut) : cut ∈ lens := by
  unfold cutValue at h
  split at h
  · exact (sortP_perm lens).mem_iff.mp (List.mem_of_getLast? h)
  · exact (sortP_perm lens).mem_iff.mp (List.mem_of_getElem? h)

theorem cutValue_isSome (m : Nat) (lens : List P) (hm : m < lens.length) : ∃ cut, cutValue m lens = some cut := by
  unfold cutValue
  have hl : (sortP lens).length = lens.length := (sortP_perm lens).length_eq
  split
  · cases h : (sortP lens).getLast? with
    | none =>
      rw [List.getLast?_eq_none_iff] at h
      rw [h] at hl; simp at hl; omega
    | some c => exact ⟨c, rfl⟩
  · have : m - 1 < (sortP lens).length := by omega
    exact ⟨(sortP lens)[m - 1], by simp [this]⟩

/-- fewer than `m` elements are strictly below `np.sort(row_data)[m - 1]` -/
theorem cutValue_count (m : Nat) (hm : 0 < m) (lens : List P) (cut : P) (h : cutValue m lens = some cut) :
    (lens.filter (fun y => decide (y < cut))).length < m := by
  unfold cutValue at h
  have hm0 : m ≠ 0 := by omega
  simp only [hm0, ↓reduceIte] at h
  have h1 := sorted_count_lt (sortP lens) (sortP_sorted lens) (m - 1) cut h
  have h2 := ((sortP_perm lens).filter (fun y => decide (y < cut))).length_eq
  omega

theorem isZero_zero (zero : P) : isZero zero zero = true := by simp [isZero]

/-- zeroing and `eliminate_zeros()` together: the entries of length `≤ cut` stay -/
theorem prune_elim_eq (zero : P) (m : Nat) (row : List (Ent P)) (cut : P) (hm : m < row.length)
    (hc : cutValue m (row.map (·.2)) = some cut) :
    elimZeros zero (degreePrune zero m row) =
      (elimZeros zero row).filter (fun e => decide (¬ cut < e.2)) := by
  unfold degreePrune
  simp only [hm, ↓reduceIte, hc, elimZeros]
  rw [List.filter_map, List.filter_filter]
  generalize row = r
  induction r with
  | nil => simp
  | cons e r ih =>
    simp only [List.filter_cons, Function.comp]
    by_cases h : cut < e.2
    · simp [h, isZero_zero, ih]
    · simp only [h, ↓reduceIte, not_false_eq_true, decide_true, Bool.true_and]
      split
      · simp [List.map_cons, ih, h]
      · exact ih

theorem prune_sublist (zero : P) (m : Nat) (row : List (Ent P)) :
    (elimZeros zero (degreePrune zero m row)).Sublist row := by
  by_cases hm : m < row.length
  · obtain ⟨cut, hc⟩ := cutValue_isSome m (row.map (·.2)) (by simpa using hm)
    rw [prune_elim_eq zero m row cut hm hc]
    exact (List.filter_sublist).trans List.filter_sublist
  · unfold degreePrune
    simp only [hm, ↓reduceIte]
    exact List.filter_sublist

theorem prune_mem_of_le (zero : P) (m : Nat) (row : List (Ent P)) (e : Ent P) (he : e ∈ row)
    (hnz : isZero zero e.2 = false)
    (hle : ∀ cut, cutValue m (row.map (·.2)) = some cut → e.2 ≤ cut) :
    e ∈ elimZeros zero (degreePrune zero m row) := by
  by_cases hm : m < row.length
  · obtain ⟨cut, hc⟩ := cutValue_isSome m (row.map (·.2)) (by simpa using hm)
    rw [prune_elim_eq zero m row cut hm hc]
    simp only [elimZeros, List.mem_filter, he, hnz, Bool.not_false, and_self, not_lt, true_and]
    exact decide_eq_true (hle cut hc)
  · unfold degreePrune
    simp only [hm, ↓reduceIte, elimZeros, List.mem_filter, he, hnz, Bool.not_false, and_self]

/-! ## the pipeline model of `_init_search_graph` -/

omit [LinearOrder P] in
theorem row_tab (n : Nat) (f : Nat → List (Ent P)) (u : Nat) :
    Graph.row ((Array.range n).map f) u = if u < n then f u else [] := by
  unfold Graph.row
  by_cases h : u < n
  · simp [Array.getD, h]
  · simp [Array.getD, h]

theorem divLoop_mem (eps : P) (dist : Int → Int → P) (draw : Nat → Bool) (rest new : List (Ent P))
    (c : Nat) : ∀ x ∈ (divLoop eps dist draw rest new c).1, x ∈ new ∨ x ∈ rest := by
  induction rest generalizing new c with
  | nil => intro x hx; exact Or.inl (by simpa [divLoop] using hx)
  | cons e rest ih =>
    intro x hx
    rw [divLoop] at hx
    split at hx
    · exact Or.inl hx
    · simp only at hx
      split at hx
      · rcases ih _ _ x hx with h | h
        · rcases List.mem_append.mp h with h | h
          · exact Or.inl h
          · simp only [List.mem_singleton] at h
            exact Or.inr (h ▸ List.mem_cons_self)
        · exact Or.inr (List.mem_cons_of_mem _ h)
      · rcases ih _ _ x hx with h | h
        · exact Or.inl h
        · exact Or.inr (List.mem_cons_of_mem _ h)

theorem diversifyList_mem (eps : P) (dist : Int → Int → P) (draw : Nat → Bool) (row : List (Ent P)) :
    ∀ x ∈ (diversifyList eps dist draw row).1, x ∈ row := by
  cases row with
  | nil => simp [diversifyList]
  | cons e rest =>
    intro x hx
    simp only [diversifyList] at hx
    rcases divLoop_mem _ _ _ _ _ _ x hx with h | h
    · simp only [List.mem_singleton] at h; exact h ▸ List.mem_cons_self
    · exact List.mem_cons_of_mem _ h

/-- an edge of the first CSR form comes from a stored entry of the row, with the protected length -/
theorem forwardRowD_mem (zero eps top : P) (dist : Int → Int → P) (draw : Nat → Bool)
    (row : List (Ent P)) (e : Ent P) (he : e ∈ forwardRowD zero eps top dist draw row) :
    e.1 ≠ -1 ∧ ∃ d, (e.1, d) ∈ row ∧ e.2 = protect zero eps d := by
  unfold forwardRowD elimZeros at he
  simp only [List.mem_filter, List.mem_map] at he
  obtain ⟨⟨x, ⟨y, hy, rfl⟩, hx⟩, hz⟩ := he
  by_cases h1 : y.1 = -1
  · simp only [h1, ↓reduceIte] at hx
    subst hx
    simp [isZero_zero] at hz
  · simp only [h1, ↓reduceIte] at hx
    subst hx
    refine ⟨h1, y.2, ?_, rfl⟩
    unfold diversifyRow at hy
    rcases List.mem_append.mp hy with hy | hy
    · exact diversifyList_mem _ _ _ _ _ hy
    · have := (List.mem_replicate.mp hy).2
      exact absurd (by rw [this]) h1

theorem forwardRow_mem (zero eps top : P) (dist : Int → Int → P) (row : List (Ent P)) (e : Ent P)
    (he : e ∈ forwardRow zero eps top dist row) :
    e.1 ≠ -1 ∧ ∃ d, (e.1, d) ∈ row ∧ e.2 = protect zero eps d :=
  forwardRowD_mem zero eps top dist _ row e he

theorem secondRowD_mem (zero eps : P) (dist : Int → Int → P) (argsort : List P → List Nat)
    (draw : Nat → Bool) (row : List (Ent P)) (e : Ent P)
    (he : e ∈ secondRowD zero eps dist argsort draw row) : e ∈ row := by
  unfold secondRowD elimZeros at he
  simp only [List.mem_filter, List.mem_map] at he
  obtain ⟨⟨x, hx, hxe⟩, hz⟩ := he
  split at hxe
  · subst hxe
    obtain ⟨_, _, h⟩ := List.mem_zipIdx hx
    rw [h]; exact List.getElem_mem _
  · subst hxe
    simp [isZero_zero] at hz

theorem secondRow_mem (zero eps : P) (dist : Int → Int → P) (argsort : List P → List Nat)
    (row : List (Ent P)) (e : Ent P) (he : e ∈ secondRow zero eps dist argsort row) : e ∈ row :=
  secondRowD_mem zero eps dist argsort _ row e he

omit [LinearOrder P] in
theorem revRow_mem (n : Nat) (A : Graph P) (v : Nat) (e : Ent P) :
    e ∈ revRow n A v ↔ ∃ u, u < n ∧ e.1 = (u : Int) ∧ ((v : Int), e.2) ∈ A.row u := by
  unfold revRow
  simp only [List.mem_flatMap, List.mem_range, List.mem_map, List.mem_filter, decide_eq_true_eq]
  constructor
  · rintro ⟨u, hu, x, ⟨hx, hxv⟩, rfl⟩
    exact ⟨u, hu, rfl, by simpa [← hxv] using hx⟩
  · rintro ⟨u, hu, he1, hmem⟩
    exact ⟨u, hu, ((v : Int), e.2), ⟨hmem, rfl⟩, by simp [← he1]⟩

omit [LinearOrder P] in
theorem valAt_some (row : List (Ent P)) (v : Int) (w : P) (h : valAt row v = some w) : (v, w) ∈ row := by
  unfold valAt at h
  simp only [Option.map_eq_some_iff] at h
  obtain ⟨x, hx, rfl⟩ := h
  have h1 := List.mem_of_find?_eq_some hx
  have h2 := List.find?_some hx
  simp only [decide_eq_true_eq] at h2
  rw [← h2]; exact h1

theorem unionRow_mem (zero : P) (n : Nat) (a b : List (Ent P)) (e : Ent P) (he : e ∈ unionRow zero n a b) :
    (∃ v : Nat, v < n ∧ e.1 = (v : Int)) ∧ isZero zero e.2 = false ∧
      ((∃ w, (e.1, w) ∈ a) ∨ (∃ w, (e.1, w) ∈ b)) := by
  unfold unionRow at he
  simp only [List.mem_filterMap, List.mem_range] at he
  obtain ⟨v, hv, h⟩ := he
  cases ha : valAt a (v : Int) with
  | none =>
    cases hb : valAt b (v : Int) with
    | none => simp [ha, hb] at h
    | some y =>
      simp only [ha, hb] at h
      split at h
      · cases h
      · rename_i hz
        cases h
        exact ⟨⟨v, hv, rfl⟩, by simpa using hz, Or.inr ⟨y, valAt_some b _ _ hb⟩⟩
  | some x =>
    simp only [ha] at h
    split at h
    · cases h
    · rename_i hz
      cases h
      exact ⟨⟨v, hv, rfl⟩, by simpa using hz, Or.inl ⟨x, valAt_some a _ _ ha⟩⟩

/-- point `u` lists `v` in the neighbour graph -/
def Lists (N : List (List (Ent P))) (u : Nat) (v : Int) : Prop := ∃ d, (v, d) ∈ N.getD u []

theorem fwdRowsD_row (zero eps top : P) (dist : Int → Int → P) (N : List (List (Ent P)))
    (draw1 : Nat → Nat → Bool) (u : Nat) :
    (fwdRowsD zero eps top dist N draw1).row u =
      if u < N.length then forwardRowD zero eps top dist (draw1 u) (N.getD u []) else [] := row_tab _ _ _

theorem sndRowsD_row (zero eps top : P) (dist : Int → Int → P) (argsort : List P → List Nat)
    (N : List (List (Ent P))) (draw1 draw2 : Nat → Nat → Bool) (u : Nat) :
    (sndRowsD zero eps top dist argsort N draw1 draw2).row u =
      if u < N.length then
        secondRowD zero eps dist argsort (draw2 u) ((fwdRowsD zero eps top dist N draw1).row u)
      else [] :=
  row_tab _ _ _

theorem uniRowsD_row (zero eps top : P) (dist : Int → Int → P) (argsort : List P → List Nat)
    (N : List (List (Ent P))) (draw1 draw2 : Nat → Nat → Bool) (u : Nat) :
    (uniRowsD zero eps top dist argsort N draw1 draw2).row u =
      if u < N.length then
        dropDiag u (unionRow zero N.length ((sndRowsD zero eps top dist argsort N draw1 draw2).row u)
          (revRow N.length (sndRowsD zero eps top dist argsort N draw1 draw2) u))
      else [] := row_tab _ _ _

theorem finalRowsD_row (zero eps top : P) (dist : Int → Int → P) (argsort : List P → List Nat) (m : Nat)
    (N : List (List (Ent P))) (draw1 draw2 : Nat → Nat → Bool) (u : Nat) :
    (finalRowsD zero eps top dist argsort m N draw1 draw2).row u =
      if u < N.length then
        elimZeros zero (degreePrune zero m ((uniRowsD zero eps top dist argsort N draw1 draw2).row u))
      else [] := row_tab _ _ _

theorem fwdRows_row (zero eps top : P) (dist : Int → Int → P) (N : List (List (Ent P))) (u : Nat) :
    (fwdRows zero eps top dist N).row u =
      if u < N.length then forwardRow zero eps top dist (N.getD u []) else [] := row_tab _ _ _

theorem sndRows_row (zero eps top : P) (dist : Int → Int → P) (argsort : List P → List Nat)
    (N : List (List (Ent P))) (u : Nat) :
    (sndRows zero eps top dist argsort N).row u =
      if u < N.length then secondRow zero eps dist argsort ((fwdRows zero eps top dist N).row u) else [] :=
  row_tab _ _ _

theorem uniRows_row (zero eps top : P) (dist : Int → Int → P) (argsort : List P → List Nat)
    (N : List (List (Ent P))) (u : Nat) :
    (uniRows zero eps top dist argsort N).row u =
      if u < N.length then
        dropDiag u (unionRow zero N.length ((sndRows zero eps top dist argsort N).row u)
          (revRow N.length (sndRows zero eps top dist argsort N) u))
      else [] := row_tab _ _ _

theorem finalRows_row (zero eps top : P) (dist : Int → Int → P) (argsort : List P → List Nat) (m : Nat)
    (N : List (List (Ent P))) (u : Nat) :
    (finalRows zero eps top dist argsort m N).row u =
      if u < N.length then
        elimZeros zero (degreePrune zero m ((uniRows zero eps top dist argsort N).row u))
      else [] := row_tab _ _ _

theorem sndRowsD_lists (zero eps top : P) (dist : Int → Int → P) (argsort : List P → List Nat)
    (N : List (List (Ent P))) (draw1 draw2 : Nat → Nat → Bool) (u : Nat) (e : Ent P)
    (he : e ∈ (sndRowsD zero eps top dist argsort N draw1 draw2).row u) : u < N.length ∧ Lists N u e.1 := by
  rw [sndRowsD_row] at he
  split at he
  · rename_i hu
    have h1 := secondRowD_mem _ _ _ _ _ _ _ he
    rw [fwdRowsD_row] at h1
    simp only [hu, ↓reduceIte] at h1
    obtain ⟨_, d, hd, _⟩ := forwardRowD_mem _ _ _ _ _ _ _ h1
    exact ⟨hu, d, hd⟩
  · simp at he

theorem sndRows_lists (zero eps top : P) (dist : Int → Int → P) (argsort : List P → List Nat)
    (N : List (List (Ent P))) (u : Nat) (e : Ent P)
    (he : e ∈ (sndRows zero eps top dist argsort N).row u) : u < N.length ∧ Lists N u e.1 :=
  sndRowsD_lists zero eps top dist argsort N _ _ u e he

theorem searchGraphD_mem (zero eps top : P) (dist : Int → Int → P) (argsort : List P → List Nat) (m : Nat)
    (N : List (List (Ent P))) (draw1 draw2 : Nat → Nat → Bool) (u : Nat) (v : Int) :
    (u, v) ∈ searchGraphD zero eps top dist argsort m N draw1 draw2 ↔
      u < N.length ∧ ∃ w, (v, w) ∈ (finalRowsD zero eps top dist argsort m N draw1 draw2).row u := by
  unfold searchGraphD
  simp only [List.mem_flatMap, List.mem_range, List.mem_map, Prod.mk.injEq]
  constructor
  · rintro ⟨u', hu', e, he, rfl, rfl⟩
    exact ⟨hu', e.2, he⟩
  · rintro ⟨hu, w, hw⟩
    exact ⟨u, hu, (v, w), hw, rfl, rfl⟩

theorem searchGraph_mem (zero eps top : P) (dist : Int → Int → P) (argsort : List P → List Nat) (m : Nat)
    (N : List (List (Ent P))) (u : Nat) (v : Int) :
    (u, v) ∈ searchGraph zero eps top dist argsort m N ↔
      u < N.length ∧ ∃ w, (v, w) ∈ (finalRows zero eps top dist argsort m N).row u :=
  searchGraphD_mem zero eps top dist argsort m N _ _ u v

/-- every edge of the final graph is an entry of the union row (before pruning) -/
theorem finalRowsD_sub_uni (zero eps top : P) (dist : Int → Int → P) (argsort : List P → List Nat) (m : Nat)
    (N : List (List (Ent P))) (draw1 draw2 : Nat → Nat → Bool) (u : Nat) (e : Ent P)
    (he : e ∈ (finalRowsD zero eps top dist argsort m N draw1 draw2).row u) :
    e ∈ (uniRowsD zero eps top dist argsort N draw1 draw2).row u := by
  rw [finalRowsD_row] at he
  split at he
  · exact (prune_sublist zero m _).subset he
  · simp at he

theorem finalRows_sub_uni (zero eps top : P) (dist : Int → Int → P) (argsort : List P → List Nat) (m : Nat)
    (N : List (List (Ent P))) (u : Nat) (e : Ent P)
    (he : e ∈ (finalRows zero eps top dist argsort m N).row u) :
    e ∈ (uniRows zero eps top dist argsort N).row u :=
  finalRowsD_sub_uni zero eps top dist argsort m N _ _ u e he

theorem uniRowsD_spec (zero eps top : P) (dist : Int → Int → P) (argsort : List P → List Nat)
    (N : List (List (Ent P))) (draw1 draw2 : Nat → Nat → Bool) (u : Nat) (e : Ent P)
    (he : e ∈ (uniRowsD zero eps top dist argsort N draw1 draw2).row u) :
    u < N.length ∧ e.1 ≠ (u : Int) ∧ ∃ v : Nat, v < N.length ∧ e.1 = (v : Int) ∧
      (Lists N u e.1 ∨ Lists N v (u : Int)) := by
  rw [uniRowsD_row] at he
  split at he
  · rename_i hu
    unfold dropDiag at he
    simp only [List.mem_filter, decide_eq_true_eq] at he
    obtain ⟨hmem, hne⟩ := he
    obtain ⟨⟨v, hv, hev⟩, _, hor⟩ := unionRow_mem _ _ _ _ _ hmem
    refine ⟨hu, hne, v, hv, hev, ?_⟩
    rcases hor with ⟨w, hw⟩ | ⟨w, hw⟩
    · exact Or.inl (sndRowsD_lists _ _ _ _ _ _ _ _ _ _ hw).2
    · obtain ⟨u', hu', h1, h2⟩ := (revRow_mem _ _ _ _).mp hw
      simp only at h1 h2
      have : u' = v := by omega
      subst this
      exact Or.inr (sndRowsD_lists _ _ _ _ _ _ _ _ _ _ h2).2
  · simp at he

theorem uniRows_spec (zero eps top : P) (dist : Int → Int → P) (argsort : List P → List Nat)
    (N : List (List (Ent P))) (u : Nat) (e : Ent P)
    (he : e ∈ (uniRows zero eps top dist argsort N).row u) :
    u < N.length ∧ e.1 ≠ (u : Int) ∧ ∃ v : Nat, v < N.length ∧ e.1 = (v : Int) ∧
      (Lists N u e.1 ∨ Lists N v (u : Int)) :=
  uniRowsD_spec zero eps top dist argsort N _ _ u e he

/-! ## the nearest neighbour through the pipeline -/

theorem scanNew_small (eps : P) (dist : Int → Int → P) (draw : Nat → Bool) (cj : Int) (dj : P)
    (new : List (Ent P)) (c : Nat) (h : ∀ e ∈ new, e.2 ≤ eps) :
    scanNew eps dist draw cj dj new c = (true, c) := by
  induction new generalizing c with
  | nil => rfl
  | cons e new ih =>
    have he : ¬ eps < e.2 := not_lt.mpr (h e List.mem_cons_self)
    rw [scanNew]
    simp only [he, false_and, ↓reduceIte]
    exact ih c (fun x hx => h x (List.mem_cons_of_mem _ hx))

/-- an entry preceded only by entries of length `≤ eps` (the point itself, exact duplicates) is
appended whatever the generator says -/
theorem divLoop_keeps (eps : P) (dist : Int → Int → P) (draw : Nat → Bool) (a b new : List (Ent P))
    (x : Ent P) (c : Nat) (hx : 0 ≤ x.1) (ha : ∀ e ∈ a, 0 ≤ e.1 ∧ e.2 ≤ eps) (hnew : ∀ e ∈ new, e.2 ≤ eps) :
    x ∈ (divLoop eps dist draw (a ++ x :: b) new c).1 := by
  induction a generalizing new c with
  | nil =>
    have hx' : ¬ x.1 < 0 := by omega
    rw [List.nil_append, divLoop]
    simp only [hx', ↓reduceIte, scanNew_small eps dist draw x.1 x.2 new c hnew]
    obtain ⟨ext, h⟩ := divLoop_prefix eps dist draw b (new ++ [x]) c
    rw [h]; simp
  | cons e a ih =>
    have he := ha e List.mem_cons_self
    have he' : ¬ e.1 < 0 := by omega
    rw [List.cons_append, divLoop]
    simp only [he', ↓reduceIte, scanNew_small eps dist draw e.1 e.2 new c hnew]
    apply ih
    · exact fun y hy => ha y (List.mem_cons_of_mem _ hy)
    · intro y hy
      rcases List.mem_append.mp hy with hy | hy
      · exact hnew y hy
      · simp only [List.mem_singleton] at hy; rw [hy]; exact he.2

theorem diversifyList_keeps (eps : P) (dist : Int → Int → P) (draw : Nat → Bool) (pre post : List (Ent P))
    (x : Ent P) (hx : 0 ≤ x.1) (hpre : ∀ e ∈ pre, 0 ≤ e.1 ∧ e.2 ≤ eps) :
    x ∈ (diversifyList eps dist draw (pre ++ x :: post)).1 := by
  cases pre with
  | nil =>
    obtain ⟨ext, h⟩ := divLoop_prefix eps dist draw post [x] 0
    simp [diversifyList, h]
  | cons e pre =>
    simp only [List.cons_append, diversifyList]
    apply divLoop_keeps eps dist draw pre post [e] x 0 hx
    · exact fun y hy => hpre y (List.mem_cons_of_mem _ hy)
    · intro y hy
      simp only [List.mem_singleton] at hy
      rw [hy]; exact (hpre e List.mem_cons_self).2

theorem protect_pos (zero eps x : P) (hze : zero < eps) : zero < protect zero eps x := by
  unfold protect
  split
  · exact hze
  · rename_i h; exact not_le.mp h

theorem isZero_of_pos (zero x : P) (h : zero < x) : isZero zero x = false := by
  simp [isZero, not_le.mpr h]

theorem forwardRowD_keeps (zero eps top : P) (hze : zero < eps) (dist : Int → Int → P)
    (draw : Nat → Bool)
    (pre post : List (Ent P)) (x : Ent P) (hx : 0 ≤ x.1) (hpre : ∀ e ∈ pre, 0 ≤ e.1 ∧ e.2 ≤ eps) :
    (x.1, protect zero eps x.2) ∈ forwardRowD zero eps top dist draw (pre ++ x :: post) := by
  unfold forwardRowD elimZeros
  simp only [List.mem_filter, List.mem_map]
  refine ⟨⟨(x.1, protect zero eps x.2), ⟨x, ?_, rfl⟩, ?_⟩, ?_⟩
  · unfold diversifyRow
    exact List.mem_append_left _ (diversifyList_keeps eps dist _ pre post x hx hpre)
  · have : x.1 ≠ -1 := by omega
    simp [this]
  · simp [isZero_of_pos zero _ (protect_pos zero eps x.2 hze)]

theorem forwardRow_keeps (zero eps top : P) (hze : zero < eps) (dist : Int → Int → P)
    (pre post : List (Ent P)) (x : Ent P) (hx : 0 ≤ x.1) (hpre : ∀ e ∈ pre, 0 ≤ e.1 ∧ e.2 ≤ eps) :
    (x.1, protect zero eps x.2) ∈ forwardRow zero eps top dist (pre ++ x :: post) :=
  forwardRowD_keeps zero eps top hze dist _ pre post x hx hpre

theorem forwardRowD_pos (zero eps top : P) (hze : zero < eps) (dist : Int → Int → P) (draw : Nat → Bool)
    (row : List (Ent P)) (e : Ent P) (he : e ∈ forwardRowD zero eps top dist draw row) : zero < e.2 := by
  obtain ⟨_, d, _, h⟩ := forwardRowD_mem zero eps top dist draw row e he
  rw [h]; exact protect_pos zero eps d hze

theorem forwardRow_pos (zero eps top : P) (hze : zero < eps) (dist : Int → Int → P) (row : List (Ent P))
    (e : Ent P) (he : e ∈ forwardRow zero eps top dist row) : zero < e.2 :=
  forwardRowD_pos zero eps top hze dist _ row e he

theorem sndRowsD_pos (zero eps top : P) (hze : zero < eps) (dist : Int → Int → P)
    (argsort : List P → List Nat) (N : List (List (Ent P))) (draw1 draw2 : Nat → Nat → Bool)
    (u : Nat) (e : Ent P)
    (he : e ∈ (sndRowsD zero eps top dist argsort N draw1 draw2).row u) : zero < e.2 := by
  rw [sndRowsD_row] at he
  split at he
  · rename_i hu
    have h1 := secondRowD_mem _ _ _ _ _ _ _ he
    rw [fwdRowsD_row] at h1
    simp only [hu, ↓reduceIte] at h1
    exact forwardRowD_pos zero eps top hze dist _ _ e h1
  · simp at he

theorem sndRows_pos (zero eps top : P) (hze : zero < eps) (dist : Int → Int → P)
    (argsort : List P → List Nat) (N : List (List (Ent P))) (u : Nat) (e : Ent P)
    (he : e ∈ (sndRows zero eps top dist argsort N).row u) : zero < e.2 :=
  sndRowsD_pos zero eps top hze dist argsort N _ _ u e he

omit [LinearOrder P] in
theorem filter_sublist_filter {α : Type} (p q : α → Bool) (l : List α) (h : ∀ x ∈ l, p x = true → q x = true) :
    (l.filter p).Sublist (l.filter q) := by
  induction l with
  | nil => simp
  | cons a l ih =>
    have ih' := ih (fun x hx => h x (List.mem_cons_of_mem _ hx))
    by_cases hp : p a = true
    · have hq := h a List.mem_cons_self hp
      rw [List.filter_cons_of_pos hp, List.filter_cons_of_pos hq]
      exact ih'.cons_cons a
    · rw [List.filter_cons_of_neg hp]
      by_cases hq : q a = true
      · rw [List.filter_cons_of_pos hq]; exact ih'.cons a
      · rw [List.filter_cons_of_neg hq]; exact ih'

omit [LinearOrder P] in
theorem valAt_of_mem (row : List (Ent P)) (v : Int) (w : P) (h : (v, w) ∈ row) :
    ∃ w0, valAt row v = some w0 ∧ (v, w0) ∈ row := by
  cases hf : valAt row v with
  | none =>
    unfold valAt at hf
    simp only [Option.map_eq_none_iff, List.find?_eq_none, decide_eq_true_eq] at hf
    exact absurd rfl (hf _ h)
  | some w0 => exact ⟨w0, rfl, valAt_some row v w0 hf⟩

theorem le_maxP_left (a b : P) : a ≤ maxP a b := by
  unfold maxP; split
  · rename_i h; exact le_of_lt h
  · exact le_refl _

/-- the union keeps every positive entry of its left operand, with a length at least as large -/
theorem unionRow_keeps (zero : P) (n : Nat) (a b : List (Ent P)) (v : Nat) (w : P) (hv : v < n)
    (hpos : ∀ e ∈ a, zero < e.2) (h : ((v : Int), w) ∈ a) :
    ∃ w0 w', ((v : Int), w0) ∈ a ∧ w0 ≤ w' ∧ ((v : Int), w') ∈ unionRow zero n a b := by
  obtain ⟨w0, hw0, hmem⟩ := valAt_of_mem a _ _ h
  have hp : zero < w0 := hpos _ hmem
  refine ⟨w0, maxP w0 ((valAt b (v : Int)).getD zero), hmem, le_maxP_left _ _, ?_⟩
  unfold unionRow
  simp only [List.mem_filterMap, List.mem_range]
  refine ⟨v, hv, ?_⟩
  have hnz : isZero zero (maxP w0 ((valAt b (v : Int)).getD zero)) = false :=
    isZero_of_pos zero _ (lt_of_lt_of_le hp (le_maxP_left _ _))
  rw [hw0]
  simp [hnz]

/-- in an ascending list at least `i + 1` elements are `≤` the `i`-th -/
theorem sorted_count_le (s : List P) (hs : s.Pairwise (· ≤ ·)) (i : Nat) (x : P) (hi : s[i]? = some x) :
    i + 1 ≤ (s.filter (fun y => decide (y ≤ x))).length := by
  induction s generalizing i with
  | nil => simp at hi
  | cons a s ih =>
    have hp := List.pairwise_cons.mp hs
    cases i with
    | zero =>
      simp only [List.getElem?_cons_zero, Option.some.injEq] at hi
      subst hi
      simp
    | succ i =>
      simp only [List.getElem?_cons_succ] at hi
      have hax : a ≤ x := hp.1 x (List.mem_of_getElem? hi)
      have := ih hp.2 i hi
      simp only [List.filter_cons, hax, decide_true, ↓reduceIte, List.length_cons]
      omega

theorem cutValue_count_le (m : Nat) (hm : 0 < m) (lens : List P) (cut : P) (h : cutValue m lens = some cut) :
    m ≤ (lens.filter (fun y => decide (y ≤ cut))).length := by
  unfold cutValue at h
  have hm0 : m ≠ 0 := by omega
  simp only [hm0, ↓reduceIte] at h
  have h1 := sorted_count_le (sortP lens) (sortP_sorted lens) (m - 1) cut h
  have h2 := ((sortP_perm lens).filter (fun y => decide (y ≤ cut))).length_eq
  omega

theorem exists_min_len (row : List (Ent P)) (h : row ≠ []) : ∃ e ∈ row, ∀ e' ∈ row, e.2 ≤ e'.2 := by
  induction row with
  | nil => exact absurd rfl h
  | cons a row ih =>
    by_cases hr : row = []
    · subst hr; exact ⟨a, List.mem_cons_self, by simp⟩
    · obtain ⟨e, he, hmin⟩ := ih hr
      by_cases hae : a.2 ≤ e.2
      · refine ⟨a, List.mem_cons_self, ?_⟩
        intro e' he'
        rcases List.mem_cons.mp he' with rfl | he'
        · exact le_refl _
        · exact le_trans hae (hmin e' he')
      · refine ⟨e, List.mem_cons_of_mem _ he, ?_⟩
        intro e' he'
        rcases List.mem_cons.mp he' with rfl | he'
        · exact le_of_lt (not_le.mp hae)
        · exact hmin e' he'

/-- an entry that the pruning removes has at least `m` kept entries strictly shorter than itself -/
theorem prune_removed_count (zero : P) (m : Nat) (hm : 0 < m) (row : List (Ent P))
    (hnz : ∀ e ∈ row, isZero zero e.2 = false) (x : Ent P) (hx : x ∈ row)
    (hrem : x ∉ elimZeros zero (degreePrune zero m row)) :
    m ≤ ((elimZeros zero (degreePrune zero m row)).filter (fun e => decide (e.2 < x.2))).length := by
  by_cases hlen : m < row.length
  · obtain ⟨cut, hc⟩ := cutValue_isSome m (row.map (·.2)) (by simpa using hlen)
    have hcut : cut < x.2 := by
      apply Classical.not_not.mp
      intro h
      exact hrem (prune_mem_of_le zero m row x hx (hnz x hx)
        (fun c hc' => by rw [hc] at hc'; cases hc'; exact not_lt.mp h))
    have hcnt := cutValue_count_le m hm (row.map (·.2)) cut hc
    rw [prune_elim_eq zero m row cut hlen hc]
    have he : elimZeros zero row = row := by
      unfold elimZeros
      apply List.filter_eq_self.mpr
      intro e he; simp [hnz e he]
    rw [he, List.filter_filter]
    have hsub : (row.filter (fun e => decide (e.2 ≤ cut))).length ≤
        (row.filter (fun e => decide (e.2 < x.2) && decide (¬ cut < e.2))).length := by
      apply List.Sublist.length_le
      apply filter_sublist_filter
      intro e _ he
      simp only [decide_eq_true_eq] at he
      simp only [Bool.and_eq_true, decide_eq_true_eq, not_lt]
      exact ⟨lt_of_le_of_lt he hcut, he⟩
    have hmap : (row.filter (fun e => decide (e.2 ≤ cut))).length =
        ((row.map (·.2)).filter (fun y => decide (y ≤ cut))).length := by
      rw [List.filter_map, List.length_map]; rfl
    omega
  · exfalso
    apply hrem
    unfold degreePrune
    simp only [hlen, ↓reduceIte, elimZeros, List.mem_filter, hx, hnz x hx, Bool.not_false, and_self]

/-! ## the second pass keeps the nearest neighbour -/

/-- `a` does not occlude `b` -/
def NonOcc (eps : P) (dist : Int → Int → P) (a b : Ent P) : Prop := ¬ (eps < a.2 ∧ dist b.1 a.1 < b.2)

theorem scanNew_true_iff (eps : P) (dist : Int → Int → P) (cj : Int) (dj : P) (new : List (Ent P)) (c : Nat) :
    (scanNew eps dist (fun _ => true) cj dj new c).1 = true ↔
      ∀ e ∈ new, ¬ (eps < e.2 ∧ dist cj e.1 < dj) := by
  induction new generalizing c with
  | nil => simp [scanNew]
  | cons e new ih =>
    rw [scanNew]
    by_cases h : eps < e.2 ∧ dist cj e.1 < dj
    · simp only [h, and_self, ↓reduceIte, Bool.false_eq_true, List.mem_cons, forall_eq_or_imp,
        not_true_eq_false, false_and]
    · simp only [h, ↓reduceIte, ih, List.mem_cons, forall_eq_or_imp, not_false_eq_true, true_and]

/-- with probability 1 the appended entries are pairwise non-occluding, earlier against later -/
theorem divLoop_pairwise (eps : P) (dist : Int → Int → P) (rest new : List (Ent P)) (c : Nat)
    (h : new.Pairwise (NonOcc eps dist)) :
    (divLoop eps dist (fun _ => true) rest new c).1.Pairwise (NonOcc eps dist) := by
  induction rest generalizing new c with
  | nil => simpa [divLoop] using h
  | cons e rest ih =>
    rw [divLoop]
    split
    · exact h
    · simp only
      split
      · rename_i hs
        apply ih
        rw [List.pairwise_append]
        refine ⟨h, by simp, ?_⟩
        intro a ha b hb
        simp only [List.mem_singleton] at hb
        subst hb
        exact (scanNew_true_iff eps dist _ _ new c).mp hs a ha
      · exact ih _ _ h

theorem diversifyList_pairwise (eps : P) (dist : Int → Int → P) (row : List (Ent P)) :
    (diversifyList eps dist (fun _ => true) row).1.Pairwise (NonOcc eps dist) := by
  cases row with
  | nil => simp [diversifyList]
  | cons e rest =>
    simp only [diversifyList]
    exact divLoop_pairwise eps dist rest [e] 0 (by simp)

omit [LinearOrder P] in
theorem pairwise_or {α : Type} (R : α → α → Prop) (l : List α) (h : l.Pairwise R) (a b : α)
    (ha : a ∈ l) (hb : b ∈ l) (hne : a ≠ b) : R a b ∨ R b a := by
  induction l with
  | nil => simp at ha
  | cons c l ih =>
    have hp := List.pairwise_cons.mp h
    rcases List.mem_cons.mp ha with hac | ha
    · rcases List.mem_cons.mp hb with hbc | hb
      · exact absurd (hac.trans hbc.symm) hne
      · exact Or.inl (hac ▸ hp.1 b hb)
    · rcases List.mem_cons.mp hb with hbc | hb
      · exact Or.inr (hbc ▸ hp.1 a ha)
      · exact ih hp.2 ha hb

/-- an edge of the first CSR form is an entry the forward pass appended to `new_*` -/
theorem forwardRowD_mem_new (zero eps top : P) (dist : Int → Int → P) (draw : Nat → Bool)
    (row : List (Ent P)) (e : Ent P) (he : e ∈ forwardRowD zero eps top dist draw row) :
    ∃ y ∈ (diversifyList eps dist draw row).1, e.1 = y.1 ∧ e.2 = protect zero eps y.2 := by
  unfold forwardRowD elimZeros at he
  simp only [List.mem_filter, List.mem_map] at he
  obtain ⟨⟨x, ⟨y, hy, rfl⟩, hx⟩, hz⟩ := he
  by_cases h1 : y.1 = -1
  · simp only [h1, ↓reduceIte] at hx
    subst hx
    simp [isZero_zero] at hz
  · simp only [h1, ↓reduceIte] at hx
    subst hx
    unfold diversifyRow at hy
    rcases List.mem_append.mp hy with hy | hy
    · exact ⟨y, hy, rfl, rfl⟩
    · have := (List.mem_replicate.mp hy).2
      exact absurd (by rw [this]) h1

theorem forwardRow_mem_new (zero eps top : P) (dist : Int → Int → P) (row : List (Ent P)) (e : Ent P)
    (he : e ∈ forwardRow zero eps top dist row) :
    ∃ y ∈ (diversifyList eps dist (fun _ => true) row).1, e.1 = y.1 ∧ e.2 = protect zero eps y.2 :=
  forwardRowD_mem_new zero eps top dist _ row e he

theorem protect_gt (zero eps x : P) (h : eps < protect zero eps x) : protect zero eps x = x ∧ eps < x := by
  unfold protect at h ⊢
  split
  · rename_i hx; simp only [hx, ↓reduceIte] at h; exact absurd h (lt_irrefl _)
  · rename_i hx; simp only [hx, ↓reduceIte] at h; exact ⟨rfl, h⟩

/-- an entry at a position whose `retained` flag survives is an entry of the second-pass row -/
theorem secondRowD_of_keep (zero eps : P) (dist : Int → Int → P) (argsort : List P → List Nat)
    (draw : Nat → Bool)
    (row : List (Ent P)) (j : Nat) (e : Ent P) (hj : row[j]? = some e) (hnz : isZero zero e.2 = false)
    (hk : diversifyCsr eps dist draw (nbrOf row) (lenOf eps row)
      (argsort (row.map (·.2))) j = true) :
    e ∈ secondRowD zero eps dist argsort draw row := by
  unfold secondRowD elimZeros
  simp only [List.mem_filter, List.mem_map]
  refine ⟨⟨(e, j), ?_, by simp [hk]⟩, by simp [hnz]⟩
  exact List.mem_zipIdx_iff_getElem?.mpr hj

theorem secondRow_of_keep (zero eps : P) (dist : Int → Int → P) (argsort : List P → List Nat)
    (row : List (Ent P)) (j : Nat) (e : Ent P) (hj : row[j]? = some e) (hnz : isZero zero e.2 = false)
    (hk : diversifyCsr eps dist (fun _ => true) (nbrOf row) (lenOf eps row)
      (argsort (row.map (·.2))) j = true) :
    e ∈ secondRow zero eps dist argsort row :=
  secondRowD_of_keep zero eps dist argsort _ row j e hj hnz hk

/-- **second pass, every draw stream of either pass**: under the invariants of a real neighbour
row (`hpre`: only entries of length `≤ eps` before `x`; `hpost`: nothing shorter after it) and for
every `argsort` that returns an ascending arrangement, the entry `x` survives the second greedy pass
as well, provided no entry stored after `x`, *tied* with it and appended by the forward pass is
strictly closer to `x`'s point than the row's own point is (`hocc`; the test is the one the second
kernel evaluates, `dist(data[x], data[y]) < len x`, with `x` as candidate; only needed when
`eps < len x`).
Every other potential occluder is excluded by the order of the visit: it would have to be visited
before `x` with a length `> eps`. -/
theorem secondRowD_keeps (zero eps top : P) (hze : zero < eps) (dist : Int → Int → P)
    (argsort : List P → List Nat)
    (hbound : ∀ lens, ∀ i ∈ argsort lens, i < lens.length) (hnd : ∀ lens, (argsort lens).Nodup)
    (hsorted : ∀ lens, (argsort lens).Pairwise
      (fun a b => ∀ p q, lens[a]? = some p → lens[b]? = some q → p ≤ q))
    (draw1 draw2 : Nat → Bool)
    (pre post : List (Ent P)) (x : Ent P) (hx : 0 ≤ x.1) (hpre : ∀ e ∈ pre, 0 ≤ e.1 ∧ e.2 ≤ eps)
    (hpost : ∀ e ∈ post, x.2 ≤ e.2)
    (hocc : ∀ y ∈ (diversifyList eps dist draw1 (pre ++ x :: post)).1, y ∈ post → y ≠ x → y.2 = x.2 →
      eps < x.2 → ¬ dist x.1 y.1 < x.2) :
    (x.1, protect zero eps x.2) ∈
      secondRowD zero eps dist argsort draw2 (forwardRowD zero eps top dist draw1 (pre ++ x :: post)) := by
  have hin := forwardRowD_keeps zero eps top hze dist draw1 pre post x hx hpre
  generalize hfrow : forwardRowD zero eps top dist draw1 (pre ++ x :: post) = frow at hin ⊢
  obtain ⟨jv, hjvlt, hget⟩ := List.getElem_of_mem hin
  have hget? : frow[jv]? = some (x.1, protect zero eps x.2) := by simp [hjvlt, hget]
  have hnzx : isZero zero (protect zero eps x.2) = false := isZero_of_pos zero _ (protect_pos zero eps x.2 hze)
  by_cases hk : diversifyCsr eps dist draw2 (nbrOf frow) (lenOf eps frow)
      (argsort (frow.map (·.2))) jv = true
  · exact secondRowD_of_keep zero eps dist argsort draw2 frow jv _ hget? hnzx hk
  · have hk' : diversifyCsr eps dist draw2 (nbrOf frow) (lenOf eps frow)
        (argsort (frow.map (·.2))) jv = false := by simpa using hk
    have hmem := diversifyCsr_false_mem _ _ _ _ _ _ _ hk'
    obtain ⟨opre, opost, hsplit⟩ := List.append_of_mem hmem
    obtain ⟨l, hl, hkl, heps, hdist⟩ := diversifyCsr_false_occ eps dist draw2 (nbrOf frow) (lenOf eps frow) _
      (hnd (frow.map (·.2))) opre jv opost hsplit hk'
    have hlord : l ∈ argsort (frow.map (·.2)) := by rw [hsplit]; simp [hl]
    have hllt : l < frow.length := by simpa using hbound _ l hlord
    have hgl? : frow[l]? = some frow[l] := by simp [hllt]
    have hnl : nbrOf frow l = frow[l].1 := by simp [nbrOf, hllt]
    have hll : lenOf eps frow l = frow[l].2 := by simp [lenOf, hllt]
    have hnj : nbrOf frow jv = x.1 := by simp [nbrOf, hget?]
    have hlj : lenOf eps frow jv = protect zero eps x.2 := by simp [lenOf, hget?]
    rw [hll] at heps
    rw [hnj, hnl, hlj] at hdist
    -- the entry at position `l` was appended by the forward pass
    have hlmem : frow[l] ∈ forwardRowD zero eps top dist draw1 (pre ++ x :: post) := by
      rw [hfrow]; exact List.getElem_mem _
    obtain ⟨y, hynew, hy1, hy2⟩ := forwardRowD_mem_new zero eps top dist draw1 _ _ hlmem
    rw [hy2] at heps
    obtain ⟨hpy, hepsy⟩ := protect_gt zero eps y.2 heps
    -- `l` is visited before `jv`, so its length is not larger
    have hle : frow[l].2 ≤ protect zero eps x.2 := by
      have hs := hsorted (frow.map (·.2))
      rw [hsplit] at hs
      have := (List.pairwise_append.mp hs).2.2 l hl jv List.mem_cons_self
      exact this _ _ (by simp [hllt]) (by simp [hget?])
    rw [hy2, hpy] at hle
    have hepsx : eps < protect zero eps x.2 := lt_of_lt_of_le hepsy hle
    obtain ⟨hpx, hepsx'⟩ := protect_gt zero eps x.2 hepsx
    rw [hpx] at hle hdist
    rw [hy1] at hdist
    by_cases hyx : y = x
    · -- the same entry, at an earlier visited position that is retained
      have : frow[l] = (x.1, protect zero eps x.2) := by
        rw [Prod.ext_iff]; simp only; rw [hy1, hy2, hyx]; exact ⟨rfl, rfl⟩
      exact secondRowD_of_keep zero eps dist argsort draw2 frow l _ (by rw [hgl?, this]) hnzx hkl
    · exfalso
      have hyrow := diversifyList_mem eps dist _ _ y hynew
      rcases List.mem_append.mp hyrow with hy | hy
      · exact absurd hepsy (not_lt.mpr (hpre y hy).2)
      · rcases List.mem_cons.mp hy with hy | hy
        · exact hyx hy
        · exact hocc y hynew hy hyx (le_antisymm hle (hpost y hy)) hepsx' hdist

/-- **second pass after a forward pass with probability 1** (any draw stream in the second pass):
under a symmetric table a tied later entry that is closer to `x`'s point would have been occluded
by `x` in the forward pass, so `hocc` of `secondRowD_keeps` holds by itself. -/
theorem secondRowD_keeps_fwd1 (zero eps top : P) (hze : zero < eps) (dist : Int → Int → P)
    (hsym : ∀ a b, dist a b = dist b a) (argsort : List P → List Nat)
    (hbound : ∀ lens, ∀ i ∈ argsort lens, i < lens.length) (hnd : ∀ lens, (argsort lens).Nodup)
    (hsorted : ∀ lens, (argsort lens).Pairwise
      (fun a b => ∀ p q, lens[a]? = some p → lens[b]? = some q → p ≤ q))
    (draw2 : Nat → Bool)
    (pre post : List (Ent P)) (x : Ent P) (hx : 0 ≤ x.1) (hpre : ∀ e ∈ pre, 0 ≤ e.1 ∧ e.2 ≤ eps)
    (hpost : ∀ e ∈ post, x.2 ≤ e.2) :
    (x.1, protect zero eps x.2) ∈
      secondRowD zero eps dist argsort draw2
        (forwardRowD zero eps top dist (fun _ => true) (pre ++ x :: post)) := by
  apply secondRowD_keeps zero eps top hze dist argsort hbound hnd hsorted (fun _ => true) draw2 pre post x
    hx hpre hpost
  intro y hynew _ hyx hyx2 hepsx hdist
  have hxnew := diversifyList_keeps eps dist (fun _ => true) pre post x hx hpre
  have hpw := diversifyList_pairwise eps dist (pre ++ x :: post)
  rcases pairwise_or _ _ hpw x y hxnew hynew (fun h => hyx h.symm) with h | h
  · exact h ⟨hepsx, by rw [hsym y.1 x.1, hyx2]; exact hdist⟩
  · exact h ⟨by rw [hyx2]; exact hepsx, hdist⟩

/-- `secondRowD_keeps_fwd1` for `diversify_prob = 1` in both passes -/
theorem secondRow_keeps (zero eps top : P) (hze : zero < eps) (dist : Int → Int → P)
    (hsym : ∀ a b, dist a b = dist b a) (argsort : List P → List Nat)
    (hbound : ∀ lens, ∀ i ∈ argsort lens, i < lens.length) (hnd : ∀ lens, (argsort lens).Nodup)
    (hsorted : ∀ lens, (argsort lens).Pairwise
      (fun a b => ∀ p q, lens[a]? = some p → lens[b]? = some q → p ≤ q))
    (pre post : List (Ent P)) (x : Ent P) (hx : 0 ≤ x.1) (hpre : ∀ e ∈ pre, 0 ≤ e.1 ∧ e.2 ≤ eps)
    (hpost : ∀ e ∈ post, x.2 ≤ e.2) :
    (x.1, protect zero eps x.2) ∈
      secondRow zero eps dist argsort (forwardRow zero eps top dist (pre ++ x :: post)) :=
  secondRowD_keeps_fwd1 zero eps top hze dist hsym argsort hbound hnd hsorted _ pre post x hx hpre hpost

/-- **second pass with ties, every draw stream, every tie order**: without any hypothesis on the
tied entries, *some* entry at the length of `x` — `x` itself or an entry stored after it with the
same length — survives both passes: the first visited position longer than `eps` has no possible
occluder, and it is `x` or tied with it. -/
theorem secondRowD_keeps_tied (zero eps top : P) (hze : zero < eps) (dist : Int → Int → P)
    (argsort : List P → List Nat)
    (hbound : ∀ lens, ∀ i ∈ argsort lens, i < lens.length) (hnd : ∀ lens, (argsort lens).Nodup)
    (hsorted : ∀ lens, (argsort lens).Pairwise
      (fun a b => ∀ p q, lens[a]? = some p → lens[b]? = some q → p ≤ q))
    (draw1 draw2 : Nat → Bool)
    (pre post : List (Ent P)) (x : Ent P) (hx : 0 ≤ x.1) (hpre : ∀ e ∈ pre, 0 ≤ e.1 ∧ e.2 ≤ eps)
    (hpost : ∀ e ∈ post, x.2 ≤ e.2) :
    ∃ y, (y = x ∨ (y ∈ post ∧ y.2 = x.2)) ∧ (y.1, protect zero eps x.2) ∈
      secondRowD zero eps dist argsort draw2 (forwardRowD zero eps top dist draw1 (pre ++ x :: post)) := by
  have hin := forwardRowD_keeps zero eps top hze dist draw1 pre post x hx hpre
  generalize hfrow : forwardRowD zero eps top dist draw1 (pre ++ x :: post) = frow at hin ⊢
  obtain ⟨jv, hjvlt, hget⟩ := List.getElem_of_mem hin
  have hget? : frow[jv]? = some (x.1, protect zero eps x.2) := by simp [hjvlt, hget]
  have hnzx : isZero zero (protect zero eps x.2) = false := isZero_of_pos zero _ (protect_pos zero eps x.2 hze)
  have hlj : lenOf eps frow jv = protect zero eps x.2 := by simp [lenOf, hget?]
  by_cases hk : diversifyCsr eps dist draw2 (nbrOf frow) (lenOf eps frow)
      (argsort (frow.map (·.2))) jv = true
  · exact ⟨x, Or.inl rfl, secondRowD_of_keep zero eps dist argsort draw2 frow jv _ hget? hnzx hk⟩
  · have hk' : diversifyCsr eps dist draw2 (nbrOf frow) (lenOf eps frow)
        (argsort (frow.map (·.2))) jv = false := by simpa using hk
    have hmem := diversifyCsr_false_mem _ _ _ _ _ _ _ hk'
    have hs := hsorted (frow.map (·.2))
    -- `x` is longer than `eps`: it has an occluder visited earlier
    have hepsx : eps < protect zero eps x.2 := by
      obtain ⟨opre, opost, hsplit⟩ := List.append_of_mem hmem
      obtain ⟨l, hl, _, heps, _⟩ := diversifyCsr_false_occ eps dist draw2 (nbrOf frow) (lenOf eps frow) _
        (hnd (frow.map (·.2))) opre jv opost hsplit hk'
      have hlord : l ∈ argsort (frow.map (·.2)) := by rw [hsplit]; simp [hl]
      have hllt : l < frow.length := by simpa using hbound _ l hlord
      rw [hsplit] at hs
      have := (List.pairwise_append.mp hs).2.2 l hl jv List.mem_cons_self
      have hle : frow[l].2 ≤ protect zero eps x.2 := this _ _ (by simp [hllt]) (by simp [hget?])
      have hll : lenOf eps frow l = frow[l].2 := by simp [lenOf, hllt]
      rw [hll] at heps
      exact lt_of_lt_of_le heps hle
    obtain ⟨hpx, hepsx'⟩ := protect_gt zero eps x.2 hepsx
    -- the first visited position longer than `eps`
    have hfind : ∃ z, (argsort (frow.map (·.2))).find? (fun i => decide (eps < lenOf eps frow i)) = some z := by
      cases hf : (argsort (frow.map (·.2))).find? (fun i => decide (eps < lenOf eps frow i)) with
      | some z => exact ⟨z, rfl⟩
      | none =>
        rw [List.find?_eq_none] at hf
        have := hf jv hmem
        simp only [hlj, decide_eq_true_eq] at this
        exact absurd hepsx this
    obtain ⟨z, hz⟩ := hfind
    obtain ⟨hpz, as, bs, hsplit, has⟩ := List.find?_eq_some_iff_append.mp hz
    simp only [decide_eq_true_eq] at hpz
    have hzord : z ∈ argsort (frow.map (·.2)) := by rw [hsplit]; simp
    have hzlt : z < frow.length := by simpa using hbound _ z hzord
    have hlz : lenOf eps frow z = frow[z].2 := by simp [lenOf, hzlt]
    have hgz? : frow[z]? = some frow[z] := by simp [hzlt]
    -- it is retained: an occluder would be an earlier visited position longer than `eps`
    have hkz : diversifyCsr eps dist draw2 (nbrOf frow) (lenOf eps frow)
        (argsort (frow.map (·.2))) z = true := by
      by_cases hkz : diversifyCsr eps dist draw2 (nbrOf frow) (lenOf eps frow)
          (argsort (frow.map (·.2))) z = true
      · exact hkz
      · exfalso
        obtain ⟨l, hl, _, heps, _⟩ := diversifyCsr_false_occ eps dist draw2 (nbrOf frow) (lenOf eps frow) _
          (hnd (frow.map (·.2))) as z bs hsplit (by simpa using hkz)
        have := has l hl
        simp only [Bool.not_eq_eq_eq_not, Bool.not_true, decide_eq_false_iff_not] at this
        exact this heps
    -- it is visited no later than `x`
    have hle : frow[z].2 ≤ protect zero eps x.2 := by
      rw [hsplit] at hmem hs
      rcases List.mem_append.mp hmem with h | h
      · have := has jv h
        simp only [hlj, Bool.not_eq_eq_eq_not, Bool.not_true, decide_eq_false_iff_not] at this
        exact absurd hepsx this
      · rcases List.mem_cons.mp h with h | h
        · subst h
          have : frow[jv] = (x.1, protect zero eps x.2) := hget
          rw [this]
        · have := (List.pairwise_cons.mp (List.pairwise_append.mp hs).2.1).1 jv h
          exact this _ _ (by simp [hzlt]) (by simp [hget?])
    rw [hlz] at hpz
    have hzmem : frow[z] ∈ forwardRowD zero eps top dist draw1 (pre ++ x :: post) := by
      rw [hfrow]; exact List.getElem_mem _
    obtain ⟨_, d', hd', hd2⟩ := forwardRowD_mem zero eps top dist draw1 _ _ hzmem
    rw [hd2] at hpz
    obtain ⟨hpd, hepsd⟩ := protect_gt zero eps d' hpz
    rw [hd2, hpd, hpx] at hle
    have hnz : isZero zero frow[z].2 = false := by
      rw [hd2]; exact isZero_of_pos zero _ (protect_pos zero eps d' hze)
    have hkeep := secondRowD_of_keep zero eps dist argsort draw2 frow z _ hgz? hnz hkz
    rcases List.mem_append.mp hd' with hy | hy
    · exact absurd hepsd (not_lt.mpr (hpre _ hy).2)
    · rcases List.mem_cons.mp hy with hy | hy
      · refine ⟨x, Or.inl rfl, ?_⟩
        have h1 : frow[z].1 = x.1 := by rw [← hy]
        have h2 : d' = x.2 := by rw [← hy]
        have : frow[z] = (x.1, protect zero eps x.2) := by
          rw [Prod.ext_iff]; exact ⟨h1, by simp only; rw [hd2, h2]⟩
        rw [← this]; exact hkeep
      · have hxd : d' = x.2 := le_antisymm hle (hpost _ hy)
        refine ⟨(frow[z].1, d'), Or.inr ⟨hy, hxd⟩, ?_⟩
        have : frow[z] = (frow[z].1, protect zero eps x.2) := by
          rw [Prod.ext_iff]; exact ⟨rfl, by simp only; rw [hd2, hxd]⟩
        rw [← this]; exact hkeep

/-! ## from the second pass to the final graph (no generator involved) -/

/-- symmetrisation, diagonal removal, degree pruning and binarisation of an entry `(v, w)`, `v ≠ u`,
that row `u` holds after the second pass: it stays in the candidate row with some length `w'`, the
final row holds a shortest entry of the candidate row, and `(u, v)` itself is an edge unless at
least `m` kept edges are strictly shorter than `w'` -/
theorem nearest_of_snd (zero eps top : P) (hze : zero < eps) (dist : Int → Int → P)
    (argsort : List P → List Nat) (m : Nat) (hm : 0 < m) (N : List (List (Ent P)))
    (draw1 draw2 : Nat → Nat → Bool) (u v : Nat) (w : P)
    (hu : u < N.length) (hv : v < N.length) (hne : v ≠ u)
    (hsnd : ((v : Int), w) ∈ (sndRowsD zero eps top dist argsort N draw1 draw2).row u) :
    ∃ w', ((v : Int), w') ∈ (uniRowsD zero eps top dist argsort N draw1 draw2).row u ∧
      (∃ e ∈ (finalRowsD zero eps top dist argsort m N draw1 draw2).row u,
          ∀ e' ∈ (uniRowsD zero eps top dist argsort N draw1 draw2).row u, e.2 ≤ e'.2) ∧
      ((u, (v : Int)) ∈ searchGraphD zero eps top dist argsort m N draw1 draw2 ∨
        m ≤ (((finalRowsD zero eps top dist argsort m N draw1 draw2).row u).filter
          (fun e => decide (e.2 < w'))).length) := by
  obtain ⟨w0, w', _, _, hw'⟩ := unionRow_keeps zero N.length _
    (revRow N.length (sndRowsD zero eps top dist argsort N draw1 draw2) u) v _ hv
    (fun e he => sndRowsD_pos zero eps top hze dist argsort N draw1 draw2 u e he) hsnd
  have huni : ((v : Int), w') ∈ (uniRowsD zero eps top dist argsort N draw1 draw2).row u := by
    rw [uniRowsD_row]
    simp only [hu, ↓reduceIte, dropDiag, List.mem_filter, hw', decide_eq_true_eq, true_and]
    omega
  have hnz : ∀ e ∈ (uniRowsD zero eps top dist argsort N draw1 draw2).row u, isZero zero e.2 = false := by
    intro e he
    rw [uniRowsD_row] at he
    simp only [hu, ↓reduceIte, dropDiag, List.mem_filter] at he
    exact (unionRow_mem _ _ _ _ _ he.1).2.1
  have hfin : (finalRowsD zero eps top dist argsort m N draw1 draw2).row u =
      elimZeros zero (degreePrune zero m ((uniRowsD zero eps top dist argsort N draw1 draw2).row u)) := by
    rw [finalRowsD_row]; simp [hu]
  refine ⟨w', huni, ?_, ?_⟩
  · obtain ⟨e, he, hmin⟩ := exists_min_len _ (List.ne_nil_of_mem huni)
    refine ⟨e, ?_, hmin⟩
    rw [hfin]
    apply prune_mem_of_le zero m _ e he (hnz e he)
    intro cut hc
    obtain ⟨e', he', h⟩ := List.mem_map.mp (cutValue_mem m _ cut hc)
    rw [← h]; exact hmin e' he'
  · by_cases hk : ((v : Int), w') ∈ (finalRowsD zero eps top dist argsort m N draw1 draw2).row u
    · exact Or.inl ((searchGraphD_mem _ _ _ _ _ _ _ _ _ _ _).mpr ⟨hu, w', hk⟩)
    · right
      rw [hfin] at hk ⊢
      exact prune_removed_count zero m hm _ hnz _ huni hk

/-! ## the hypotheses on `argsort` are satisfiable -/

/-- an insertion-sort based argsort is an ascending arrangement of all positions, whenever the
comparison is total, transitive and refines the order of the values -/
theorem argsortBy_ok (le : P × Nat → P × Nat → Bool)
    (trans : ∀ a b c, le a b = true → le b c = true → le a c = true)
    (total : ∀ a b, le a b = true ∨ le b a = true)
    (hle : ∀ a b, le a b = true → a.1 ≤ b.1) (lens : List P) :
    (∀ i ∈ (isort le lens.zipIdx).map (·.2), i < lens.length) ∧
    ((isort le lens.zipIdx).map (·.2)).Nodup ∧
    ((isort le lens.zipIdx).map (·.2)).Pairwise
      (fun a b => ∀ p q, lens[a]? = some p → lens[b]? = some q → p ≤ q) := by
  have hmem : ∀ a ∈ isort le lens.zipIdx, lens[a.2]? = some a.1 := by
    intro a ha
    have := (mem_isort le _ a).mp ha
    exact List.mem_zipIdx_iff_getElem?.mp this
  refine ⟨?_, ?_, ?_⟩
  · intro i hi
    obtain ⟨a, ha, rfl⟩ := List.mem_map.mp hi
    have := hmem a ha
    by_contra hlt
    rw [List.getElem?_eq_none (by omega)] at this
    cases this
  · have hp : ((isort le lens.zipIdx).map (·.2)).Perm (lens.zipIdx.map (·.2)) := (isort_perm le _).map _
    rw [hp.nodup_iff]
    have : lens.zipIdx.map (·.2) = List.range' 0 lens.length := by
      simp [List.zipIdx_map_snd 0 lens]
    rw [this]; exact List.nodup_range'
  · rw [List.pairwise_map]
    apply List.Pairwise.imp_of_mem _ (isort_pairwise le trans total lens.zipIdx)
    intro a b ha hb hab p q hp hq
    rw [hmem a ha] at hp; rw [hmem b hb] at hq
    cases hp; cases hq
    exact hle a b hab

/-- the hypotheses the theorems put on `argsort` (every position once, ascending values) -/
def ArgsortOk (argsort : List P → List Nat) : Prop :=
  (∀ lens, ∀ i ∈ argsort lens, i < lens.length) ∧ (∀ lens, (argsort lens).Nodup) ∧
  (∀ lens, (argsort lens).Pairwise (fun a b => ∀ p q, lens[a]? = some p → lens[b]? = some q → p ≤ q))

theorem stableArgsort_ok : ArgsortOk (stableArgsort (P := P)) := by
  have h := fun lens : List P => argsortBy_ok (fun a b : P × Nat => decide (a.1 ≤ b.1))
    (by intro a b c; simp only [decide_eq_true_eq]; exact le_trans)
    (by intro a b; simp only [decide_eq_true_eq]; exact le_total _ _)
    (by intro a b; simp only [decide_eq_true_eq]; exact id) lens
  exact ⟨fun lens => (h lens).1, fun lens => (h lens).2.1, fun lens => (h lens).2.2⟩

theorem revStableArgsort_ok : ArgsortOk (revStableArgsort (P := P)) := by
  have h := fun lens : List P => argsortBy_ok
    (fun a b : P × Nat => decide (a.1 < b.1 ∨ (a.1 ≤ b.1 ∧ b.2 ≤ a.2)))
    (by
      intro a b c; simp only [decide_eq_true_eq]
      rintro (h1 | ⟨h1, h1'⟩) (h2 | ⟨h2, h2'⟩)
      · exact Or.inl (lt_trans h1 h2)
      · exact Or.inl (lt_of_lt_of_le h1 h2)
      · exact Or.inl (lt_of_le_of_lt h1 h2)
      · exact Or.inr ⟨le_trans h1 h2, Nat.le_trans h2' h1'⟩)
    (by
      intro a b; simp only [decide_eq_true_eq]
      rcases lt_trichotomy a.1 b.1 with h | h | h
      · exact Or.inl (Or.inl h)
      · rcases Nat.le_total b.2 a.2 with h' | h'
        · exact Or.inl (Or.inr ⟨le_of_eq h, h'⟩)
        · exact Or.inr (Or.inr ⟨le_of_eq h.symm, h'⟩)
      · exact Or.inr (Or.inl h))
    (by
      intro a b; simp only [decide_eq_true_eq]
      rintro (h | ⟨h, _⟩)
      · exact le_of_lt h
      · exact h) lens
  exact ⟨fun lens => (h lens).1, fun lens => (h lens).2.1, fun lens => (h lens).2.2⟩

end Pynn.Div
