import PynnVerif.Proofs.GenApply

/-!
# The translated `pynndescent_.generate_leaf_updates` refines the model's `leafUpdates`

`dist` is a function parameter applied to rows of `data`; `updates` is a list of lists of triples, one per row of
`leaf_block`, each starting with the placeholder `(-1, -1, inf)`.
-/
set_option linter.unusedSectionVars false
set_option linter.unusedSimpArgs false
set_option linter.unusedVariables false
namespace Pynn
open GenK
variable {P : Type} [LE P] [LT P] [DecidableLE P] [DecidableLT P]

/-- an update of the model as the kernel's triple -/
def triple (u : Upd P) : Int × Int × P := ((u.p : Int), (u.q : Int), u.d)

/-- the test of `generate_leaf_updates` on one pair -/
def leafTest (thr : Nat → P) (dist : Nat → Nat → P) (p q : Nat) : Option (Upd P) :=
  let d := dist p q
  if d < thr p ∨ d < thr q then some ⟨p, q, d⟩ else none

theorem leafUpdates_eq (thr : Nat → P) (dist : Nat → Nat → P) (row : List Int) :
    leafUpdates thr dist row = (pairsLt (takeValid row)).filterMap (fun pq => leafTest thr dist pq.1 pq.2) := rfl

theorem takeValid_nil : takeValid ([] : List Int) = [] := rfl
theorem takeValid_neg (x : Int) (l : List Int) (h : x < 0) : takeValid (x :: l) = [] := by
  simp [takeValid, List.takeWhile_cons]; omega
theorem takeValid_nonneg (x : Nat) (l : List Int) : takeValid ((x : Int) :: l) = x :: takeValid l := by
  simp [takeValid, List.takeWhile_cons]

theorem leafUpdates_nil (thr : Nat → P) (dist : Nat → Nat → P) : leafUpdates thr dist [] = [] := rfl
theorem leafUpdates_neg (thr : Nat → P) (dist : Nat → Nat → P) (x : Int) (l : List Int) (h : x < 0) :
    leafUpdates thr dist (x :: l) = [] := by rw [leafUpdates_eq, takeValid_neg x l h]; rfl
theorem leafUpdates_cons (thr : Nat → P) (dist : Nat → Nat → P) (x : Nat) (l : List Int) :
    leafUpdates thr dist ((x : Int) :: l)
      = (takeValid l).filterMap (leafTest thr dist x) ++ leafUpdates thr dist l := by
  rw [leafUpdates_eq, leafUpdates_eq, takeValid_nonneg]
  simp [pairsLt, List.filterMap_append, List.filterMap_map, Function.comp_def]

/-- thresholds and distances as functions on row numbers (total; the defaults are never reached under the range
hypotheses of the theorems) -/
def thrOf (th : Array P) (top : P) (p : Nat) : P := th.getD p top
def distOf (data : Array (Array P)) (dist : Array P → Array P → P) (p q : Nat) : P :=
  dist (data.getD p #[]) (data.getD q #[])

omit [LE P] [LT P] [DecidableLE P] [DecidableLT P] in
theorem set_append_nil {α} (U : Array (Array α)) (n : Nat) (h : n < U.size) :
    U.setIfInBounds n (U[n] ++ ([] : List α).toArray) = U := by
  simp [set_getElem_self']

/-- the entries of a leaf row that are not negative are row numbers of `data` and `dist_thresholds` -/
def LeafRowOk (row : Array Int) (N : Nat) : Prop := ∀ x ∈ row.toList, 0 ≤ x → x.toNat < N

theorem leaf_loop2_spec (leaf_block : Array (Array Int)) (th : Array P) (data : Array (Array P))
    (dist : Array P → Array P → P) (top : P) (n pn w : Nat) (hn : n < leaf_block.size) (hw : leaf_block[n].size = w)
    (hpd : pn < data.size) (hpt : pn < th.size)
    (hok : LeafRowOk leaf_block[n] data.size) (hok' : LeafRowOk leaf_block[n] th.size) :
    ∀ (fuel : Nat) (U : Array (Array (Int × Int × P))) (j : Nat) (hU : n < U.size), j ≤ w → (w - j) + 1 ≤ fuel →
    ∃ j', generate_leaf_updates.loop2 leaf_block th data dist (n : Int) (pn : Int) (w : Int) fuel U (j : Int)
      = some (.next (U.setIfInBounds n (U[n] ++
          (((takeValid (leaf_block[n].toList.drop j)).filterMap (leafTest (thrOf th top) (distOf data dist) pn)).map triple).toArray),
          j')) := by
  intro fuel
  induction fuel with
  | zero => intro U j hU hj hf; omega
  | succ fuel ih =>
    intro U j hU hj hf
    unfold generate_leaf_updates.loop2
    by_cases hlt : j < w
    · have cj : ((j : Nat) : Int) < (w : Int) := by omega
      have ej : ((j : Nat) : Int) + 1 = ((j + 1 : Nat) : Int) := by push_cast; rfl
      have hjr : j < leaf_block[n].size := by omega
      have hd : leaf_block[n].toList.drop j = leaf_block[n][j] :: leaf_block[n].toList.drop (j+1) := by
        rw [List.drop_eq_getElem_cons (by simpa using hjr)]; simp
      simp only [cj, if_true, rd_lt leaf_block n hn, rd_lt leaf_block[n] j hjr, Option.bind_eq_bind, Option.bind_some, hd]
      by_cases hq : leaf_block[n][j] < 0
      · simp only [hq, if_true, takeValid_neg _ _ hq, List.filterMap_nil, List.map_nil, set_append_nil U n hU]
        exact ⟨_, rfl⟩
      · have hq0 : 0 ≤ leaf_block[n][j] := by omega
        have hmem : leaf_block[n][j] ∈ leaf_block[n].toList := by simp
        have hqd := hok _ hmem hq0
        have hqt := hok' _ hmem hq0
        obtain ⟨qn, hqn⟩ := Int.eq_ofNat_of_zero_le hq0
        rw [hqn] at hqd hqt ⊢
        simp only [Int.toNat_natCast] at hqd hqt
        have hnn : ¬ ((qn : Nat) : Int) < 0 := by omega
        simp only [hnn, if_false, rd_lt data pn hpd, rd_lt data qn hqd, rd_lt th pn hpt, rd_lt th qn hqt, rd_lt U n hU,
          Option.bind_some, wr_lt U n _ hU, ej, takeValid_nonneg, List.filterMap_cons]
        have hthp : thrOf th top pn = th[pn] := by simp [thrOf, hpt]
        have hthq : thrOf th top qn = th[qn] := by simp [thrOf, hqt]
        have hdist : distOf data dist pn qn = dist data[pn] data[qn] := by simp [distOf, hpd, hqd]
        have step : ∀ t : Int × Int × P, ∀ L : List (Int × Int × P),
            (U.setIfInBounds n (U[n].push t)).setIfInBounds n
              (((U.setIfInBounds n (U[n].push t))[n]'(by simpa using hU)) ++ L.toArray)
            = U.setIfInBounds n (U[n] ++ (t :: L).toArray) := by
          intro t L
          rw [Array.setIfInBounds_setIfInBounds, Array.getElem_setIfInBounds_self]
          congr 1
          apply Array.toList_inj.mp
          simp only [Array.toList_append, Array.toList_push, List.append_assoc, List.singleton_append]
        by_cases h1 : dist data[pn] data[qn] < th[pn]
        · have ht : leafTest (thrOf th top) (distOf data dist) pn qn = some ⟨pn, qn, dist data[pn] data[qn]⟩ := by
            simp [leafTest, hthp, hthq, hdist, h1]
          obtain ⟨j', hj'⟩ := ih (U.setIfInBounds n (U[n].push (↑pn, ↑qn, dist data[pn] data[qn]))) (j+1)
            (by simpa using hU) (by omega) (by omega)
          simp only [h1, if_true, ht, List.map_cons, hj', step, triple]
          exact ⟨j', rfl⟩
        · by_cases h2 : dist data[pn] data[qn] < th[qn]
          · have ht : leafTest (thrOf th top) (distOf data dist) pn qn = some ⟨pn, qn, dist data[pn] data[qn]⟩ := by
              simp [leafTest, hthp, hthq, hdist, h1, h2]
            obtain ⟨j', hj'⟩ := ih (U.setIfInBounds n (U[n].push (↑pn, ↑qn, dist data[pn] data[qn]))) (j+1)
              (by simpa using hU) (by omega) (by omega)
            simp only [h1, h2, if_true, if_false, ht, List.map_cons, hj', step, triple]
            exact ⟨j', rfl⟩
          · have ht : leafTest (thrOf th top) (distOf data dist) pn qn = none := by
              simp [leafTest, hthp, hthq, hdist, h1, h2]
            obtain ⟨j', hj'⟩ := ih U (j+1) hU (by omega) (by omega)
            simp only [h1, h2, if_false, ht, hj']
            exact ⟨j', rfl⟩
    · have cj : ¬ ((j : Nat) : Int) < (w : Int) := by omega
      have hd : leaf_block[n].toList.drop j = [] := by
        apply List.drop_eq_nil_of_le; simp; omega
      simp only [cj, if_false, hd, takeValid_nil, List.filterMap_nil, List.map_nil, set_append_nil U n hU]
      exact ⟨_, rfl⟩

omit [LE P] [LT P] [DecidableLE P] [DecidableLT P] in
theorem set_set_append {α} (U : Array (Array α)) (n : Nat) (h : n < U.size) (A B : List α) :
    (U.setIfInBounds n (U[n] ++ A.toArray)).setIfInBounds n
      (((U.setIfInBounds n (U[n] ++ A.toArray))[n]'(by simpa using h)) ++ B.toArray)
    = U.setIfInBounds n (U[n] ++ (A ++ B).toArray) := by
  rw [Array.setIfInBounds_setIfInBounds, Array.getElem_setIfInBounds_self]
  congr 1
  apply Array.toList_inj.mp
  simp only [Array.toList_append, List.append_assoc]

theorem leaf_loop1_spec (leaf_block : Array (Array Int)) (th : Array P) (data : Array (Array P))
    (dist : Array P → Array P → P) (top : P) (n w : Nat) (hn : n < leaf_block.size) (hw : leaf_block[n].size = w)
    (hnc : ncols leaf_block = w)
    (hok : LeafRowOk leaf_block[n] data.size) (hok' : LeafRowOk leaf_block[n] th.size) :
    ∀ (fuel : Nat) (U : Array (Array (Int × Int × P))) (i : Nat) (hU : n < U.size), i ≤ w → (w - i) + w + 1 ≤ fuel →
    ∃ i', generate_leaf_updates.loop1 leaf_block th data dist (n : Int) (w : Int) fuel U (i : Int)
      = some (.next (U.setIfInBounds n (U[n] ++
          ((leafUpdates (thrOf th top) (distOf data dist) (leaf_block[n].toList.drop i)).map triple).toArray), i')) := by
  intro fuel
  induction fuel with
  | zero => intro U i hU hi hf; omega
  | succ fuel ih =>
    intro U i hU hi hf
    unfold generate_leaf_updates.loop1
    by_cases hlt : i < w
    · have ci : ((i : Nat) : Int) < (w : Int) := by omega
      have ei : ((i : Nat) : Int) + 1 = ((i + 1 : Nat) : Int) := by push_cast; rfl
      have hir : i < leaf_block[n].size := by omega
      have hd : leaf_block[n].toList.drop i = leaf_block[n][i] :: leaf_block[n].toList.drop (i+1) := by
        rw [List.drop_eq_getElem_cons (by simpa using hir)]; simp
      simp only [ci, if_true, rd_lt leaf_block n hn, rd_lt leaf_block[n] i hir, Option.bind_eq_bind, Option.bind_some, hd, hnc]
      by_cases hp : leaf_block[n][i] < 0
      · simp only [hp, if_true, leafUpdates_neg _ _ _ _ hp, List.map_nil, set_append_nil U n hU]
        exact ⟨_, rfl⟩
      · have hp0 : 0 ≤ leaf_block[n][i] := by omega
        have hmem : leaf_block[n][i] ∈ leaf_block[n].toList := by simp
        have hpd := hok _ hmem hp0
        have hpt := hok' _ hmem hp0
        obtain ⟨pn, hpn⟩ := Int.eq_ofNat_of_zero_le hp0
        rw [hpn] at hpd hpt ⊢
        simp only [Int.toNat_natCast] at hpd hpt
        have hnn : ¬ ((pn : Nat) : Int) < 0 := by omega
        obtain ⟨j', h2⟩ := leaf_loop2_spec leaf_block th data dist top n pn w hn hw hpd hpt hok hok' fuel U (i+1) hU
          (by omega) (by omega)
        simp only [hnn, if_false, ei, h2, Option.bind_some, leafUpdates_cons, List.map_append]
        obtain ⟨i', h1⟩ := ih (U.setIfInBounds n (U[n] ++ (List.map triple (List.filterMap
            (leafTest (thrOf th top) (distOf data dist) pn) (takeValid (List.drop (i + 1) leaf_block[n].toList)))).toArray))
          (i+1) (by simpa using hU) (by omega) (by omega)
        rw [h1, set_set_append U n hU]
        exact ⟨i', rfl⟩
    · have ci : ¬ ((i : Nat) : Int) < (w : Int) := by omega
      have hd : leaf_block[n].toList.drop i = [] := by
        apply List.drop_eq_nil_of_le; simp; omega
      simp only [ci, if_false, hd, leafUpdates_nil, List.map_nil, set_append_nil U n hU]
      exact ⟨_, rfl⟩

theorem leaf_loop0_spec (leaf_block : Array (Array Int)) (th : Array P) (data : Array (Array P))
    (dist : Array P → Array P → P) (top : P) (w : Nat)
    (hw : ∀ r (h : r < leaf_block.size), leaf_block[r].size = w)
    (hok : ∀ r (h : r < leaf_block.size), LeafRowOk leaf_block[r] data.size)
    (hok' : ∀ r (h : r < leaf_block.size), LeafRowOk leaf_block[r] th.size) :
    ∀ (fuel : Nat) (U : Array (Array (Int × Int × P))) (n0 : Nat), U.size = leaf_block.size → n0 ≤ leaf_block.size →
      (leaf_block.size - n0) + w + w + 2 ≤ fuel →
    ∃ U' n', generate_leaf_updates.loop0 leaf_block th data dist (leaf_block.size : Int) fuel U (n0 : Int)
        = some (.next (U', n')) ∧ U'.size = U.size ∧
      ∀ r (h : r < U.size) (h' : r < U'.size) (h'' : r < leaf_block.size),
        U'[r] = if n0 ≤ r then U[r] ++ ((leafUpdates (thrOf th top) (distOf data dist) leaf_block[r].toList).map triple).toArray
                else U[r] := by
  intro fuel
  induction fuel with
  | zero => intro U n0 hU hn hf; omega
  | succ fuel ih =>
    intro U n0 hU hn hf
    unfold generate_leaf_updates.loop0
    by_cases hlt : n0 < leaf_block.size
    · have cn : ((n0 : Nat) : Int) < (leaf_block.size : Int) := by omega
      have en : ((n0 : Nat) : Int) + 1 = ((n0 + 1 : Nat) : Int) := by push_cast; rfl
      have hnc : ncols leaf_block = w := by
        have h0 : 0 < leaf_block.size := by omega
        simp [ncols, h0, hw 0 h0]
      obtain ⟨i', h1⟩ := leaf_loop1_spec leaf_block th data dist top n0 w hlt (hw n0 hlt) hnc (hok n0 hlt) (hok' n0 hlt)
        fuel U 0 (by omega) (by omega) (by omega)
      simp only [List.drop_zero, Int.natCast_zero] at h1
      simp only [cn, if_true, hnc, h1, Option.bind_eq_bind, Option.bind_some, en]
      obtain ⟨U', n', h2, hs, hrows⟩ := ih (U.setIfInBounds n0 (U[n0] ++ (List.map triple
          (leafUpdates (thrOf th top) (distOf data dist) leaf_block[n0].toList)).toArray)) (n0+1)
        (by simpa using hU) (by omega) (by omega)
      refine ⟨U', n', h2, by simpa using hs, ?_⟩
      intro r h h' h''
      rw [hrows r (by simpa using h) h' h'']
      rw [Array.getElem_setIfInBounds h]
      by_cases hr : n0 = r
      · subst hr
        have : ¬ n0 + 1 ≤ n0 := by omega
        simp [this]
      · by_cases hle : n0 ≤ r
        · have : n0 + 1 ≤ r := by omega
          simp [hr, this, hle]
        · have : ¬ n0 + 1 ≤ r := by omega
          simp [hr, this, hle]
    · have cn : ¬ ((n0 : Nat) : Int) < (leaf_block.size : Int) := by omega
      simp only [cn, if_false]
      refine ⟨U, _, rfl, rfl, ?_⟩
      intro r h h' h''
      have : ¬ n0 ≤ r := by omega
      simp [this]

/-- **`generate_leaf_updates` (translated) refines `leafUpdates`**, row by row. -/
theorem generate_leaf_updates_refines (leaf_block : Array (Array Int)) (th : Array P) (data : Array (Array P))
    (dist : Array P → Array P → P) (top : P) (w : Nat)
    (hw : ∀ r (h : r < leaf_block.size), leaf_block[r].size = w)
    (hok : ∀ r (h : r < leaf_block.size), LeafRowOk leaf_block[r] data.size)
    (hok' : ∀ r (h : r < leaf_block.size), LeafRowOk leaf_block[r] th.size)
    (fuel : Nat) (hf : leaf_block.size + w + w + 2 ≤ fuel) :
    ∃ U', GenK.generate_leaf_updates fuel top leaf_block th data dist = some U' ∧ U'.size = leaf_block.size ∧
      ∀ r (h : r < U'.size) (h' : r < leaf_block.size),
        U'[r] = #[((-1 : Int), (-1 : Int), top)] ++
          ((leafUpdates (thrOf th top) (distOf data dist) leaf_block[r].toList).map triple).toArray := by
  obtain ⟨U', n', h1, hs, hrows⟩ := leaf_loop0_spec leaf_block th data dist top w hw hok hok' fuel
    (Array.replicate leaf_block.size #[((-1 : Int), (-1 : Int), top)]) 0 (by simp) (by omega) (by omega)
  unfold GenK.generate_leaf_updates
  simp only [Int.toNat_natCast, Int.natCast_zero] at h1 ⊢
  simp only [h1, Option.bind_eq_bind, Option.bind_some]
  refine ⟨U', rfl, by simpa using hs, ?_⟩
  intro r h h'
  have := hrows r (by simpa using h') h h'
  simpa using this


omit [LE P] [LT P] [DecidableLE P] [DecidableLT P] in
theorem updOf_triple (u : Upd P) : updOf (triple u) = some u := by
  obtain ⟨p, q, d⟩ := u
  have h1 : ¬ ((p : Nat) : Int) = -1 := by omega
  have h2 : ¬ ((q : Nat) : Int) = -1 := by omega
  simp [updOf, triple, h1, h2]

omit [LE P] [LT P] [DecidableLE P] [DecidableLT P] in
theorem filterMap_updOf_triples (l : List (Upd P)) : (l.map triple).filterMap updOf = l := by
  induction l with
  | nil => rfl
  | cons u l ih => simp [List.filterMap_cons, updOf_triple, ih]

theorem gen_mem_pairsLt {a b : Nat} : ∀ {l : List Nat}, (a, b) ∈ pairsLt l → a ∈ l ∧ b ∈ l
  | [], h => by simp [pairsLt] at h
  | x :: l, h => by
    simp only [pairsLt, List.mem_append, List.mem_map, Prod.mk.injEq] at h
    rcases h with ⟨y, hy, rfl, rfl⟩ | h
    · exact ⟨by simp, by simp [hy]⟩
    · have := gen_mem_pairsLt h
      exact ⟨by simp [this.1], by simp [this.2]⟩

theorem gen_mem_takeValid {x : Nat} : ∀ {row : List Int}, x ∈ takeValid row → ∃ y ∈ row, 0 ≤ y ∧ y.toNat = x
  | [], h => by simp [takeValid] at h
  | y :: row, h => by
    by_cases hy : y < 0
    · rw [takeValid_neg y row hy] at h; simp at h
    · obtain ⟨yn, rfl⟩ := Int.eq_ofNat_of_zero_le (by omega : 0 ≤ y)
      rw [takeValid_nonneg] at h
      rcases List.mem_cons.mp h with rfl | h
      · exact ⟨(x : Int), by simp, by omega, by simp⟩
      · obtain ⟨z, hz, h0, hz'⟩ := gen_mem_takeValid h
        exact ⟨z, by simp [hz], h0, hz'⟩

/-- every update the model emits for a leaf row joins two non-negative entries of that row -/
theorem mem_leafUpdates (thr : Nat → P) (dist : Nat → Nat → P) (row : List Int) (u : Upd P)
    (h : u ∈ leafUpdates thr dist row) :
    (∃ a ∈ row, 0 ≤ a ∧ a.toNat = u.p) ∧ (∃ b ∈ row, 0 ≤ b ∧ b.toNat = u.q) := by
  rw [leafUpdates_eq] at h
  obtain ⟨⟨a, b⟩, hab, ht⟩ := List.mem_filterMap.mp h
  simp only [leafTest] at ht
  split at ht
  · cases ht
    obtain ⟨ha, hb⟩ := gen_mem_pairsLt hab
    exact ⟨gen_mem_takeValid ha, gen_mem_takeValid hb⟩
  · cases ht

/-- what the translated kernel returns, read through `updOf` (placeholders dropped): row `r` is the model's
`leafUpdates`, and every triple can be fed to the appliers (`OkTriple`) -/
theorem generate_leaf_updates_refines' (leaf_block : Array (Array Int)) (th : Array P) (data : Array (Array P))
    (dist : Array P → Array P → P) (top : P) (w N : Nat)
    (hw : ∀ r (h : r < leaf_block.size), leaf_block[r].size = w)
    (hok : ∀ r (h : r < leaf_block.size), LeafRowOk leaf_block[r] data.size)
    (hok' : ∀ r (h : r < leaf_block.size), LeafRowOk leaf_block[r] th.size)
    (hN : ∀ r (h : r < leaf_block.size), LeafRowOk leaf_block[r] N)
    (fuel : Nat) (hf : leaf_block.size + w + w + 2 ≤ fuel) :
    ∃ U', GenK.generate_leaf_updates fuel top leaf_block th data dist = some U' ∧ U'.size = leaf_block.size ∧
      (∀ r (h : r < U'.size) (h' : r < leaf_block.size),
        U'[r] = #[((-1 : Int), (-1 : Int), top)] ++
          ((leafUpdates (thrOf th top) (distOf data dist) leaf_block[r].toList).map triple).toArray ∧
        U'[r].toList.filterMap updOf = leafUpdates (thrOf th top) (distOf data dist) leaf_block[r].toList) ∧
      (∀ b ∈ U'.toList, ∀ x ∈ b.toList, OkTriple N x) := by
  obtain ⟨U', h1, hs, hrows⟩ := generate_leaf_updates_refines leaf_block th data dist top w hw hok hok' fuel hf
  refine ⟨U', h1, hs, ?_, ?_⟩
  · intro r h h'
    refine ⟨hrows r h h', ?_⟩
    rw [hrows r h h']
    have hph : updOf (((-1 : Int), (-1 : Int), top) : Int × Int × P) = none := by simp [updOf]
    simp only [Array.toList_append, List.cons_append, List.nil_append, List.filterMap_cons, hph, filterMap_updOf_triples]
  · intro b hb x hx
    obtain ⟨r, hr, rfl⟩ := List.mem_iff_getElem.mp hb
    have hr' : r < U'.size := by simpa using hr
    have hrl : r < leaf_block.size := by omega
    have hb' : U'.toList[r] = U'[r] := by simp
    rw [hb', hrows r hr' hrl] at hx
    simp only [Array.toList_append, List.mem_append, List.mem_cons, List.not_mem_nil, or_false,
      List.mem_map] at hx
    rcases hx with rfl | ⟨u, hu, rfl⟩
    · exact Or.inl rfl
    · obtain ⟨⟨a, ha, ha0, hap⟩, ⟨c, hc, hc0, hcq⟩⟩ := mem_leafUpdates _ _ _ u hu
      have h1 := hN r hrl a (by simpa using ha) ha0
      have h2 := hN r hrl c (by simpa using hc) hc0
      right; right
      simp only [triple]
      omega

end Pynn
