import PynnVerif.Model.Transport
import Mathlib.Algebra.BigOperators.Fin
import Mathlib.Algebra.Order.BigOperators.Group.Finset
import Mathlib.Tactic.Ring
import Mathlib.Tactic.Linarith

/-!
# Transport LP over ℚ: weak duality with tolerance, link to the executable checker

`Fin n → Fin m → ℚ` plans, finite sums, all sizes.  The executable checker of
`Model/Transport.lean` works on arrays with Nat-indexed reads; `sumTo_eq` / `allTo_iff`
connect its recursions to `Finset` sums / bounded quantifiers, so that the soundness
theorem is about exactly the Boolean the native driver evaluates.
-/
namespace Pynn.Transport
open Finset BigOperators

variable {n m : ℕ}

/-- `⟨C, f⟩` -/
def cost (C f : Fin n → Fin m → ℚ) : ℚ := ∑ i, ∑ j, C i j * f i j

/-- `f` is a transport plan from `a` to `b` -/
structure Feasible (a : Fin n → ℚ) (b : Fin m → ℚ) (f : Fin n → Fin m → ℚ) : Prop where
  nonneg : ∀ i j, 0 ≤ f i j
  row : ∀ i, ∑ j, f i j = a i
  col : ∀ j, ∑ i, f i j = b j

/-- `val` is the minimum of the transport LP `(a, b, C)`: attained by a plan, below every plan. -/
def IsMin (a : Fin n → ℚ) (b : Fin m → ℚ) (C : Fin n → Fin m → ℚ) (val : ℚ) : Prop :=
  (∃ f, Feasible a b f ∧ cost C f = val) ∧ ∀ g, Feasible a b g → val ≤ cost C g

theorem IsMin.unique {a : Fin n → ℚ} {b : Fin m → ℚ} {C : Fin n → Fin m → ℚ} {v w : ℚ}
    (hv : IsMin a b C v) (hw : IsMin a b C w) : v = w := by
  obtain ⟨⟨f, hf, rfl⟩, hvm⟩ := hv
  obtain ⟨⟨g, hg, rfl⟩, hwm⟩ := hw
  exact le_antisymm (hvm g hg) (hwm f hf)

/-- cost splits into reduced-cost part and potential parts -/
theorem cost_expand (C h : Fin n → Fin m → ℚ) (u : Fin n → ℚ) (v : Fin m → ℚ) :
    ∑ i, ∑ j, C i j * h i j
      = ∑ i, ∑ j, (C i j + u i - v j) * h i j - ∑ i, u i * ∑ j, h i j + ∑ j, v j * ∑ i, h i j := by
  have h1 : ∑ i, u i * ∑ j, h i j = ∑ i, ∑ j, u i * h i j := by simp [Finset.mul_sum]
  have h2 : ∑ j, v j * ∑ i, h i j = ∑ i, ∑ j, v j * h i j := by
    rw [Finset.sum_comm]; simp [Finset.mul_sum]
  rw [h1, h2, ← Finset.sum_sub_distrib, ← Finset.sum_add_distrib]
  apply Finset.sum_congr rfl; intro i _
  rw [← Finset.sum_sub_distrib, ← Finset.sum_add_distrib]
  apply Finset.sum_congr rfl; intro j _
  ring

/-- `ε`-dual feasibility bounds the reduced-cost part of any non-negative plan from below -/
theorem red_lower (C g : Fin n → Fin m → ℚ) (u : Fin n → ℚ) (v : Fin m → ℚ) (ε : ℚ)
    (hg : ∀ i j, 0 ≤ g i j) (hdual : ∀ i j, -ε ≤ C i j + u i - v j) :
    -(ε * ∑ i, ∑ j, g i j) ≤ ∑ i, ∑ j, (C i j + u i - v j) * g i j := by
  rw [Finset.mul_sum, ← Finset.sum_neg_distrib]
  apply Finset.sum_le_sum; intro i _
  rw [Finset.mul_sum, ← Finset.sum_neg_distrib]
  apply Finset.sum_le_sum; intro j _
  have := hdual i j; have := hg i j
  nlinarith

/-- Weak duality with tolerance, against an arbitrary non-negative plan `g` (marginals of `g`
enter through the potentials). -/
theorem weak_duality_gen (C f g : Fin n → Fin m → ℚ) (u : Fin n → ℚ) (v : Fin m → ℚ) (ε : ℚ)
    (hg : ∀ i j, 0 ≤ g i j) (hdual : ∀ i j, -ε ≤ C i j + u i - v j) :
    ∑ i, ∑ j, C i j * f i j ≤ ∑ i, ∑ j, C i j * g i j
        + (∑ i, ∑ j, (C i j + u i - v j) * f i j + ε * ∑ i, ∑ j, g i j
           + ∑ i, u i * (∑ j, g i j - ∑ j, f i j) + ∑ j, v j * (∑ i, f i j - ∑ i, g i j)) := by
  have hlow := red_lower C g u v ε hg hdual
  rw [cost_expand C f u v, cost_expand C g u v]
  simp only [mul_sub, Finset.sum_sub_distrib]
  linarith

/-- Weak duality with tolerance (certificate soundness), plans with the marginals of `f`. -/
theorem weak_duality (C f g : Fin n → Fin m → ℚ) (u : Fin n → ℚ) (v : Fin m → ℚ) (ε : ℚ)
    (hg : ∀ i j, 0 ≤ g i j) (hrow : ∀ i, ∑ j, g i j = ∑ j, f i j)
    (hcol : ∀ j, ∑ i, g i j = ∑ i, f i j) (hdual : ∀ i j, -ε ≤ C i j + u i - v j) :
    ∑ i, ∑ j, C i j * f i j ≤ ∑ i, ∑ j, C i j * g i j
        + (∑ i, ∑ j, (C i j + u i - v j) * f i j + ε * ∑ i, ∑ j, f i j) := by
  have h := weak_duality_gen C f g u v ε hg hdual
  simp only [hrow, hcol, sub_self, mul_zero, Finset.sum_const_zero, add_zero] at h
  exact h

/-! ## link to the executable checker -/

theorem sumTo_eq (k : ℕ) (g : ℕ → ℚ) : sumTo k g = ∑ i : Fin k, g i := by
  induction k with
  | zero => simp [sumTo]
  | succ k ih => rw [sumTo, ih, Fin.sum_univ_castSucc]; simp

theorem allTo_iff (k : ℕ) (p : ℕ → Bool) : allTo k p = true ↔ ∀ i, i < k → p i = true := by
  induction k with
  | zero => simp [allTo]
  | succ k ih =>
    rw [allTo, Bool.and_eq_true, ih]
    constructor
    · rintro ⟨h1, h2⟩ i hi
      rcases Nat.lt_succ_iff_lt_or_eq.mp hi with h | rfl
      · exact h1 i h
      · exact h2
    · intro h
      exact ⟨fun i hi => h i (Nat.lt_succ_of_lt hi), h k (Nat.lt_succ_self k)⟩

theorem shapeOk_iff (n m : ℕ) (M : Array (Array Rat)) :
    shapeOk n m M = true ↔ M.size = n ∧ ∀ i, i < n → (M.getD i #[]).size = m := by
  simp [shapeOk, allTo_iff]

/-- What acceptance by `certOk` gives, in terms of the reads `at1`/`at2`. -/
theorem certOk_spec (a b u v : Array Rat) (C f : Array (Array Rat)) (eps : Rat)
    (h : certOk a b C f u v eps = true) :
    (C.size = a.size ∧ ∀ i, i < a.size → (C.getD i #[]).size = b.size) ∧
    (f.size = a.size ∧ ∀ i, i < a.size → (f.getD i #[]).size = b.size) ∧
    u.size = a.size ∧ v.size = b.size ∧
    (∀ i, i < a.size → ∀ j, j < b.size → 0 ≤ at2 f i j) ∧
    (∀ i, i < a.size → ∀ j, j < b.size → -eps ≤ at2 C i j + at1 u i - at1 v j) := by
  simp only [certOk, Bool.and_eq_true, shapeOk_iff, allTo_iff, beq_iff_eq, decide_eq_true_eq, red] at h
  obtain ⟨⟨⟨⟨⟨h1, h2⟩, h3⟩, h4⟩, h5⟩, h6⟩ := h
  exact ⟨h1, h2, h3, h4, h5, fun i hi j hj => of_decide_eq_true (h6 i hi j hj)⟩

theorem certGap_eq (a b u v : Array Rat) (C f : Array (Array Rat)) (eps : Rat) :
    certGap a b C f u v eps
      = ∑ i : Fin a.size, ∑ j : Fin b.size, (at2 C i j + at1 u i - at1 v j) * at2 f i j
        + eps * ∑ i : Fin a.size, ∑ j : Fin b.size, at2 f i j := by
  simp only [certGap, total, rowSum, sumTo_eq, red]

theorem gapAB_eq (a b u v : Array Rat) (C f : Array (Array Rat)) (eps : Rat) :
    gapAB a b C f u v eps
      = ∑ i : Fin a.size, ∑ j : Fin b.size, (at2 C i j + at1 u i - at1 v j) * at2 f i j
        + eps * ∑ i : Fin a.size, at1 a i
        + ∑ i : Fin a.size, at1 u i * (at1 a i - ∑ j : Fin b.size, at2 f i j)
        + ∑ j : Fin b.size, at1 v j * (∑ i : Fin a.size, at2 f i j - at1 b j) := by
  simp only [gapAB, rowSum, colSum, sumTo_eq, red]

/-- the matrix / vector read off an array (reads are in range whenever `shapeOk` holds) -/
def mat (n m : ℕ) (M : Array (Array Rat)) : Fin n → Fin m → ℚ := fun i j => at2 M i j
def vec (n : ℕ) (a : Array Rat) : Fin n → ℚ := fun i => at1 a i

theorem costOf_eq (n m : ℕ) (C f : Array (Array Rat)) : costOf n m C f = cost (mat n m C) (mat n m f) := by
  simp only [costOf, sumTo_eq, cost, mat]

/-! ## the reported residuals -/

theorem maxTo_ge (k : ℕ) (g : ℕ → ℚ) : ∀ i, i < k → g i ≤ maxTo k g := by
  induction k with
  | zero => intro i hi; omega
  | succ k ih =>
    intro i hi
    rw [maxTo]
    rcases Nat.lt_succ_iff_lt_or_eq.mp hi with h | rfl
    · have := ih i h
      split_ifs with hlt
      · exact le_of_lt (lt_of_le_of_lt this hlt)
      · exact this
    · split_ifs with hlt
      · exact le_refl _
      · exact not_lt.mp hlt

theorem absR_eq (x : ℚ) : absR x = |x| := by
  unfold absR
  split_ifs with h
  · exact (abs_of_neg h).symm
  · exact (abs_of_nonneg (not_lt.mp h)).symm

theorem rowRes_spec (a b : Array Rat) (f : Array (Array Rat)) (i : Fin a.size) :
    |∑ j, mat a.size b.size f i j - vec a.size a i| ≤ rowRes a b f := by
  have := maxTo_ge a.size (fun i => absR (rowSum b.size f i - at1 a i)) i i.isLt
  simpa only [rowRes, absR_eq, rowSum, sumTo_eq, mat, vec] using this

theorem colRes_spec (a b : Array Rat) (f : Array (Array Rat)) (j : Fin b.size) :
    |∑ i, mat a.size b.size f i j - vec b.size b j| ≤ colRes a b f := by
  have := maxTo_ge b.size (fun j => absR (colSum a.size f j - at1 b j)) j j.isLt
  simpa only [colRes, absR_eq, colSum, sumTo_eq, mat, vec] using this

/-! ## consequences for the LP optimum -/

theorem Feasible.transpose {a : Fin n → ℚ} {b : Fin m → ℚ} {f : Fin n → Fin m → ℚ}
    (h : Feasible a b f) : Feasible b a (fun j i => f i j) :=
  ⟨fun j i => h.nonneg i j, h.col, h.row⟩

theorem cost_transpose (C f : Fin n → Fin m → ℚ) :
    cost (fun j i => C i j) (fun j i => f i j) = cost C f := by
  unfold cost; exact Finset.sum_comm

theorem IsMin.transpose {a : Fin n → ℚ} {b : Fin m → ℚ} {C : Fin n → Fin m → ℚ} {val : ℚ}
    (h : IsMin a b C val) : IsMin b a (fun j i => C i j) val := by
  obtain ⟨⟨f, hf, hv⟩, hmin⟩ := h
  refine ⟨⟨fun j i => f i j, hf.transpose, by rw [cost_transpose, hv]⟩, ?_⟩
  intro g hg
  have := hmin (fun i j => g j i) hg.transpose
  rwa [← cost_transpose] at this

/-- the diagonal plan -/
def diag (a : Fin n → ℚ) : Fin n → Fin n → ℚ := fun i j => if i = j then a i else 0

theorem diag_feasible (a : Fin n → ℚ) (ha : ∀ i, 0 ≤ a i) : Feasible a a (diag a) := by
  refine ⟨?_, ?_, ?_⟩
  · intro i j; unfold diag; split_ifs <;> simp [ha]
  · intro i; simp [diag]
  · intro j; simp [diag]

theorem cost_diag (C : Fin n → Fin n → ℚ) (a : Fin n → ℚ) : cost C (diag a) = ∑ i, C i i * a i := by
  simp [cost, diag]

theorem cost_nonneg (C f : Fin n → Fin m → ℚ) (hC : ∀ i j, 0 ≤ C i j) (hf : ∀ i j, 0 ≤ f i j) :
    0 ≤ cost C f :=
  Finset.sum_nonneg fun i _ => Finset.sum_nonneg fun j _ => mul_nonneg (hC i j) (hf i j)

theorem isMin_zero_of_eq (C : Fin n → Fin n → ℚ) (a : Fin n → ℚ) (hC : ∀ i j, 0 ≤ C i j)
    (hd : ∀ i, C i i = 0) (ha : ∀ i, 0 ≤ a i) : IsMin a a C 0 := by
  refine ⟨⟨diag a, diag_feasible a ha, ?_⟩, fun g hg => cost_nonneg C g hC hg.nonneg⟩
  rw [cost_diag]; simp [hd]

/-- `x / Σ x` -/
def normalize (x : Fin n → ℚ) : Fin n → ℚ := fun i => x i / ∑ k, x k

theorem normalize_scale (c : ℚ) (hc : c ≠ 0) (x : Fin n → ℚ) :
    normalize (fun i => c * x i) = normalize x := by
  funext i
  simp only [normalize, ← Finset.mul_sum]
  exact mul_div_mul_left _ _ hc

theorem normalize_sum (x : Fin n → ℚ) (hx : ∑ k, x k ≠ 0) : ∑ i, normalize x i = 1 := by
  simp only [normalize, div_eq_mul_inv, ← Finset.sum_mul]
  exact mul_inv_cancel₀ hx

/-- a plan carries no flow out of a zero-mass row -/
theorem Feasible.row_zero {a : Fin n → ℚ} {b : Fin m → ℚ} {f : Fin n → Fin m → ℚ}
    (h : Feasible a b f) (i : Fin n) (hi : a i = 0) (j : Fin m) : f i j = 0 := by
  have := (Finset.sum_eq_zero_iff_of_nonneg (fun j _ => h.nonneg i j)).mp ((h.row i).trans hi)
  exact this j (Finset.mem_univ j)

theorem Feasible.col_zero {a : Fin n → ℚ} {b : Fin m → ℚ} {f : Fin n → Fin m → ℚ}
    (h : Feasible a b f) (j : Fin m) (hj : b j = 0) (i : Fin n) : f i j = 0 :=
  h.transpose.row_zero j hj i

theorem cost_congr_support {a : Fin n → ℚ} {b : Fin m → ℚ} {f : Fin n → Fin m → ℚ}
    (h : Feasible a b f) (C C' : Fin n → Fin m → ℚ)
    (hC : ∀ i j, a i ≠ 0 → b j ≠ 0 → C i j = C' i j) : cost C f = cost C' f := by
  unfold cost
  apply Finset.sum_congr rfl; intro i _
  apply Finset.sum_congr rfl; intro j _
  by_cases hi : a i = 0
  · rw [h.row_zero i hi j]; simp
  · by_cases hj : b j = 0
    · rw [h.col_zero j hj i]; simp
    · rw [hC i j hi hj]

theorem isMin_congr_support {a : Fin n → ℚ} {b : Fin m → ℚ} (C C' : Fin n → Fin m → ℚ)
    (hC : ∀ i j, a i ≠ 0 → b j ≠ 0 → C i j = C' i j) (val : ℚ) (h : IsMin a b C val) :
    IsMin a b C' val := by
  obtain ⟨⟨f, hf, hv⟩, hmin⟩ := h
  refine ⟨⟨f, hf, by rw [← cost_congr_support hf C C' hC, hv]⟩, fun g hg => ?_⟩
  rw [← cost_congr_support hg C C' hC]; exact hmin g hg

/-! ## the masked problem (`a[row_mask]`, `b[col_mask]`, `cost[row_mask, :][:, col_mask]`) -/
section Mask
open Function
variable {n' m' : ℕ}

/-- restriction of a plan along index embeddings (the masked arrays) -/
def pull (e : Fin n' → Fin n) (e' : Fin m' → Fin m) (f : Fin n → Fin m → ℚ) : Fin n' → Fin m' → ℚ :=
  fun i j => f (e i) (e' j)

/-- extension by zero of a plan on the masked index sets -/
def push (e : Fin n' → Fin n) (e' : Fin m' → Fin m) (g : Fin n' → Fin m' → ℚ) : Fin n → Fin m → ℚ :=
  fun i j => ∑ i', ∑ j', (if e i' = i then (1:ℚ) else 0) * ((if e' j' = j then (1:ℚ) else 0) * g i' j')

theorem sum_ind (e : Fin n' → Fin n) (i' : Fin n') (F : Fin n → ℚ) :
    ∑ i, (if e i' = i then (1:ℚ) else 0) * F i = F (e i') := by
  simp [ite_mul]

/-- `Σ_{i'} [e i' = i] * a (e i') = a i` when `e` is injective and `a` vanishes off its range -/
theorem sum_ind_range (e : Fin n' → Fin n) (he : Injective e) (a : Fin n → ℚ)
    (ha : ∀ i, a i ≠ 0 → i ∈ Set.range e) (i : Fin n) :
    ∑ i', (if e i' = i then (1:ℚ) else 0) * a (e i') = a i := by
  by_cases hi : i ∈ Set.range e
  · obtain ⟨i0, rfl⟩ := hi
    rw [Finset.sum_eq_single i0]
    · simp
    · intro k _ hk
      have : e k ≠ e i0 := fun h => hk (he h)
      simp [this]
    · simp
  · have h0 : a i = 0 := by
      by_contra h; exact hi (ha i h)
    rw [h0]
    apply Finset.sum_eq_zero
    intro k _
    have : e k ≠ i := fun h => hi ⟨k, h⟩
    simp [this]

theorem pull_feasible (e : Fin n' → Fin n) (e' : Fin m' → Fin m) (he : Injective e) (he' : Injective e')
    (a : Fin n → ℚ) (b : Fin m → ℚ) (ha : ∀ i, a i ≠ 0 → i ∈ Set.range e) (hb : ∀ j, b j ≠ 0 → j ∈ Set.range e')
    (f : Fin n → Fin m → ℚ) (hf : Feasible a b f) : Feasible (a ∘ e) (b ∘ e') (pull e e' f) := by
  refine ⟨fun i j => hf.nonneg _ _, ?_, ?_⟩
  · intro i
    rw [Function.comp_apply, ← hf.row (e i)]
    exact Fintype.sum_of_injective e' he' _ _
      (fun j hj => hf.col_zero j (by by_contra h; exact hj (hb j h)) (e i)) (fun _ => rfl)
  · intro j
    rw [Function.comp_apply, ← hf.col (e' j)]
    exact Fintype.sum_of_injective e he _ _
      (fun i hi => hf.row_zero i (by by_contra h; exact hi (ha i h)) (e' j)) (fun _ => rfl)

theorem pull_cost (e : Fin n' → Fin n) (e' : Fin m' → Fin m) (he : Injective e) (he' : Injective e')
    (a : Fin n → ℚ) (b : Fin m → ℚ) (ha : ∀ i, a i ≠ 0 → i ∈ Set.range e) (hb : ∀ j, b j ≠ 0 → j ∈ Set.range e')
    (C f : Fin n → Fin m → ℚ) (hf : Feasible a b f) : cost (pull e e' C) (pull e e' f) = cost C f := by
  unfold cost pull
  refine Fintype.sum_of_injective e he _ (fun i => ∑ j, C i j * f i j) ?_ ?_
  · intro i hi
    apply Finset.sum_eq_zero; intro j _
    rw [hf.row_zero i (by by_contra h; exact hi (ha i h)) j, mul_zero]
  · intro i
    refine Fintype.sum_of_injective e' he' _ (fun j => C (e i) j * f (e i) j) ?_ (fun _ => rfl)
    intro j hj
    rw [hf.col_zero j (by by_contra h; exact hj (hb j h)) (e i), mul_zero]

theorem push_feasible (e : Fin n' → Fin n) (e' : Fin m' → Fin m) (he : Injective e) (he' : Injective e')
    (a : Fin n → ℚ) (b : Fin m → ℚ) (ha : ∀ i, a i ≠ 0 → i ∈ Set.range e) (hb : ∀ j, b j ≠ 0 → j ∈ Set.range e')
    (g : Fin n' → Fin m' → ℚ) (hg : Feasible (a ∘ e) (b ∘ e') g) : Feasible a b (push e e' g) := by
  refine ⟨?_, ?_, ?_⟩
  · intro i j
    unfold push
    refine Finset.sum_nonneg fun i' _ => Finset.sum_nonneg fun j' _ => ?_
    have := hg.nonneg i' j'
    split_ifs <;> simp [this]
  · intro i
    unfold push
    rw [Finset.sum_comm]
    have : ∀ i', ∑ j, ∑ j', (if e i' = i then (1:ℚ) else 0) * ((if e' j' = j then (1:ℚ) else 0) * g i' j')
        = (if e i' = i then (1:ℚ) else 0) * a (e i') := by
      intro i'
      rw [Finset.sum_comm]
      simp only [← Finset.mul_sum]
      congr 1
      have hr : ∑ j', g i' j' = a (e i') := hg.row i'
      rw [← hr]
      apply Finset.sum_congr rfl; intro j' _
      rw [← Finset.sum_mul]; simp
    simp only [this]
    exact sum_ind_range e he a ha i
  · intro j
    unfold push
    have : ∀ i', ∑ i, ∑ j', (if e i' = i then (1:ℚ) else 0) * ((if e' j' = j then (1:ℚ) else 0) * g i' j')
        = ∑ j', (if e' j' = j then (1:ℚ) else 0) * g i' j' := by
      intro i'
      rw [Finset.sum_comm]
      apply Finset.sum_congr rfl; intro j' _
      rw [← Finset.sum_mul]; simp
    rw [Finset.sum_comm]
    simp only [this]
    rw [Finset.sum_comm]
    simp only [← Finset.mul_sum]
    have h2 : ∀ j', ∑ i', g i' j' = b (e' j') := fun j' => hg.col j'
    simp only [h2]
    exact sum_ind_range e' he' b hb j

theorem sum4_comm (T : Fin n → Fin m → Fin n' → Fin m' → ℚ) :
    ∑ i, ∑ j, ∑ i', ∑ j', T i j i' j' = ∑ i', ∑ j', ∑ i, ∑ j, T i j i' j' := by
  calc ∑ i, ∑ j, ∑ i', ∑ j', T i j i' j' = ∑ i, ∑ i', ∑ j, ∑ j', T i j i' j' := by
        apply Finset.sum_congr rfl; intro i _; exact Finset.sum_comm
    _ = ∑ i', ∑ i, ∑ j, ∑ j', T i j i' j' := Finset.sum_comm
    _ = ∑ i', ∑ i, ∑ j', ∑ j, T i j i' j' := by
        apply Finset.sum_congr rfl; intro i' _
        apply Finset.sum_congr rfl; intro i _; exact Finset.sum_comm
    _ = ∑ i', ∑ j', ∑ i, ∑ j, T i j i' j' := by
        apply Finset.sum_congr rfl; intro i' _; exact Finset.sum_comm

theorem push_cost (e : Fin n' → Fin n) (e' : Fin m' → Fin m) (C : Fin n → Fin m → ℚ)
    (g : Fin n' → Fin m' → ℚ) : cost C (push e e' g) = cost (pull e e' C) g := by
  unfold cost push pull
  have h1 : ∀ i j, C i j * ∑ i', ∑ j', (if e i' = i then (1:ℚ) else 0) * ((if e' j' = j then (1:ℚ) else 0) * g i' j')
      = ∑ i', ∑ j', (if e i' = i then (1:ℚ) else 0) * ((if e' j' = j then (1:ℚ) else 0) * (C i j * g i' j')) := by
    intro i j
    rw [Finset.mul_sum]; apply Finset.sum_congr rfl; intro i' _
    rw [Finset.mul_sum]; apply Finset.sum_congr rfl; intro j' _
    ring
  simp only [h1]
  refine (sum4_comm (fun i j i' j' => (if e i' = i then (1:ℚ) else 0)
    * ((if e' j' = j then (1:ℚ) else 0) * (C i j * g i' j')))).trans ?_
  apply Finset.sum_congr rfl; intro i' _
  apply Finset.sum_congr rfl; intro j' _
  have : ∀ i, ∑ j, (if e i' = i then (1:ℚ) else 0) * ((if e' j' = j then (1:ℚ) else 0) * (C i j * g i' j'))
      = (if e i' = i then (1:ℚ) else 0) * (C i (e' j') * g i' j') := by
    intro i
    rw [← Finset.mul_sum, sum_ind e' j' (fun j => C i j * g i' j')]
  simp only [this]
  exact sum_ind e i' (fun i => C i (e' j') * g i' j')

theorem isMin_mask (e : Fin n' → Fin n) (e' : Fin m' → Fin m) (he : Injective e) (he' : Injective e')
    (a : Fin n → ℚ) (b : Fin m → ℚ) (ha : ∀ i, a i ≠ 0 → i ∈ Set.range e) (hb : ∀ j, b j ≠ 0 → j ∈ Set.range e')
    (C : Fin n → Fin m → ℚ) (val : ℚ) :
    IsMin (a ∘ e) (b ∘ e') (pull e e' C) val ↔ IsMin a b C val := by
  constructor
  · rintro ⟨⟨g, hg, hv⟩, hmin⟩
    refine ⟨⟨push e e' g, push_feasible e e' he he' a b ha hb g hg, by rw [push_cost, hv]⟩, ?_⟩
    intro f hf
    rw [← pull_cost e e' he he' a b ha hb C f hf]
    exact hmin _ (pull_feasible e e' he he' a b ha hb f hf)
  · rintro ⟨⟨f, hf, hv⟩, hmin⟩
    refine ⟨⟨pull e e' f, pull_feasible e e' he he' a b ha hb f hf,
      by rw [pull_cost e e' he he' a b ha hb C f hf, hv]⟩, ?_⟩
    intro g hg
    rw [← push_cost]
    exact hmin _ (push_feasible e e' he he' a b ha hb g hg)
end Mask

end Pynn.Transport
