import PynnVerif.Proofs.GenApply

/-!
# The translated `pynndescent_.init_from_neighbor_graph` refines the model's `initFromNeighborGraph`

Two nested loops over the rows and columns of `indices` / `distances`, each entry pushed (flag `0`, no test of the
index) into row `p` of the heap by the translated `checked_flagged_heap_push` with write-back.
-/
set_option linter.unusedSectionVars false
set_option linter.unusedSimpArgs false
set_option linter.unusedVariables false
namespace Pynn
open GenK
variable {P : Type} [LE P] [LT P] [DecidableLE P] [DecidableLT P]

theorem push_row_spec0 (k : Nat) (hk : 0 < k) (D : Array (Array P)) (I F : Array (Array Int)) (g : Graph P)
    (hR : Rep k D I F g) (p : Nat) (hp : p < g.size) (d : P) (q : Int) (fuel : Nat) (hf : k + 1 ≤ fuel) :
    ∃ m0 m1 m2, GenK.checked_flagged_heap_push fuel (D[p]'(by have := hR.sD; omega)) (I[p]'(by have := hR.sI; omega))
        (F[p]'(by have := hR.sF; omega)) d q 0
        = some (m0, m1, m2, if (pushInto g p d q false).2 then 1 else 0) ∧
      Rep k (D.setIfInBounds p m0) (I.setIfInBounds p m1) (F.setIfInBounds p m2) (pushInto g p d q false).1 := by
  obtain ⟨r1, r2, r3, r4⟩ := hR.row p hp
  obtain ⟨m0, m1, m2, h1, s1, s2, s3, hz⟩ := checked_flagged_heap_push_refines
    (D[p]'(by have := hR.sD; omega)) (I[p]'(by have := hR.sI; omega)) (F[p]'(by have := hR.sF; omega))
    d q 0 fuel (by omega) (by omega) (by omega) (by omega)
  have hb : ((0 : Int) != 0) = false := rfl
  rw [hb, r4] at hz h1
  have hpi : pushInto g p d q false = (g.set p (push true g[p] d q false).1 hp, (push true g[p] d q false).2) := by
    simp [pushInto, hp, pushFlagged]
  refine ⟨m0, m1, m2, by rw [h1, hpi], ?_⟩
  rw [hpi]
  refine ⟨by simp [hR.sD], by simp [hR.sI], by simp [hR.sF], ?_⟩
  intro r h
  simp only [Array.size_set] at h
  obtain ⟨a, b, c, e⟩ := hR.row r h
  by_cases hrp : r = p
  · subst hrp
    simp only [Array.getElem_setIfInBounds_self, Array.getElem_set_self]
    exact ⟨by omega, by omega, by omega, hz⟩
  · have g1 : (D.setIfInBounds p m0)[r]'(by simp [hR.sD]; omega) = D[r]'(by have := hR.sD; omega) := by
      rw [Array.getElem_setIfInBounds]; split
      · omega
      · rfl
    have g2 : (I.setIfInBounds p m1)[r]'(by simp [hR.sI]; omega) = I[r]'(by have := hR.sI; omega) := by
      rw [Array.getElem_setIfInBounds]; split
      · omega
      · rfl
    have g3 : (F.setIfInBounds p m2)[r]'(by simp [hR.sF]; omega) = F[r]'(by have := hR.sF; omega) := by
      rw [Array.getElem_setIfInBounds]; split
      · omega
      · rfl
    have g4 : (g.set p (push true g[p] d q false).1 hp)[r]'(by simpa using h) = g[r] := by
      rw [Array.getElem_set]; split
      · omega
      · rfl
    rw [g1, g2, g3, g4]
    exact ⟨a, b, c, e⟩


/-- the seven statements `added = checked_flagged_heap_push(priorities[p], indices[p], flags[p], d, q, 1)` with the three
write-backs, followed by any continuation `K` -/
theorem push_row_bind0 (k : Nat) (hk : 0 < k) (D : Array (Array P)) (I F : Array (Array Int)) (g : Graph P)
    (hR : Rep k D I F g) (p : Nat) (hp : p < g.size) (d : P) (q : Int) (fuel : Nat) (hf : k + 1 ≤ fuel) :
    ∃ D' I' F' m0 m1 m2, Rep k D' I' F' (pushInto g p d q false).1 ∧
      ∀ {β : Type} (K : Array (Array P) → Array (Array Int) → Array (Array Int) →
          (Array P × Array Int × Array Int × Int) → Option β),
        ((rd D (p : Int)).bind fun a => (rd I (p : Int)).bind fun b => (rd F (p : Int)).bind fun c =>
          (checked_flagged_heap_push fuel a b c d q 0).bind fun x =>
            (wr D (p : Int) x.1).bind fun D1 => (wr I (p : Int) x.2.1).bind fun I1 =>
              (wr F (p : Int) x.2.2.1).bind fun F1 => K D1 I1 F1 x)
        = K D' I' F' (m0, m1, m2, if (pushInto g p d q false).2 then 1 else 0) := by
  obtain ⟨m0, m1, m2, h1, hR1⟩ := push_row_spec0 k hk D I F g hR p hp d q fuel hf
  refine ⟨_, _, _, m0, m1, m2, hR1, ?_⟩
  intro β K
  have a1 := hR.sD; have a2 := hR.sI; have a3 := hR.sF
  simp only [rd_lt D p (by omega), rd_lt I p (by omega), rd_lt F p (by omega), Option.bind_some, h1,
    wr_lt D p m0 (by omega), wr_lt I p m1 (by omega), wr_lt F p m2 (by omega)]


/-- the model's inner fold for row `p` -/
def nbrRow (p : Nat) (g : Graph P) (l : List (Int × P)) : Graph P :=
  l.foldl (fun g qd => (pushInto g p qd.2 qd.1 false).1) g

theorem nbrRow_size (p : Nat) (l : List (Int × P)) (g : Graph P) : (nbrRow p g l).size = g.size := by
  induction l generalizing g with
  | nil => rfl
  | cons x l ih => simp only [nbrRow, List.foldl_cons] at ih ⊢; rw [ih]; simp

theorem nbr_loop1_spec (k : Nat) (hk : 0 < k) (indices : Array (Array Int)) (distances : Array (Array P)) (p w : Nat)
    (hp : p < indices.size) (hp' : p < distances.size) (hw : indices[p].size = w) (hw' : distances[p].size = w) :
    ∀ (fuel : Nat) (D : Array (Array P)) (I F : Array (Array Int)) (g : Graph P) (kk : Nat),
    Rep k D I F g → p < g.size → kk ≤ w → (w - kk) + k + 1 ≤ fuel →
    ∃ D' I' F' k', init_from_neighbor_graph.loop1 indices distances (p : Int) (w : Int) fuel D I F (kk : Int)
        = some (.next (D', I', F', k')) ∧
      Rep k D' I' F' (nbrRow p g ((indices[p].toList.zip distances[p].toList).drop kk)) := by
  intro fuel
  induction fuel with
  | zero => intro D I F g kk hR hpg hkk hf; omega
  | succ fuel ih =>
    intro D I F g kk hR hpg hkk hf
    unfold init_from_neighbor_graph.loop1
    by_cases hlt : kk < w
    · have ck : ((kk : Nat) : Int) < (w : Int) := by omega
      have ek : ((kk : Nat) : Int) + 1 = ((kk + 1 : Nat) : Int) := by push_cast; rfl
      have hd : (indices[p].toList.zip distances[p].toList).drop kk
          = (indices[p][kk]'(by omega), distances[p][kk]'(by omega))
            :: (indices[p].toList.zip distances[p].toList).drop (kk+1) := by
        rw [List.drop_eq_getElem_cons (by simp; omega)]; simp
      obtain ⟨D1, I1, F1, _, _, _, hR1, hK1⟩ := push_row_bind0 k hk D I F g hR p hpg
        (distances[p][kk]'(by omega)) (indices[p][kk]'(by omega)) fuel (by omega)
      simp only [ck, if_true, rd_lt indices p hp, rd_lt distances p hp', rd_lt indices[p] kk (by omega),
        rd_lt distances[p] kk (by omega), Option.bind_eq_bind, Option.bind_some, hK1, ek, hd, nbrRow, List.foldl_cons]
      exact ih D1 I1 F1 _ (kk+1) hR1 (by simpa using hpg) (by omega) (by omega)
    · have ck : ¬ ((kk : Nat) : Int) < (w : Int) := by omega
      have hd : (indices[p].toList.zip distances[p].toList).drop kk = [] := by
        apply List.drop_eq_nil_of_le; simp; omega
      simp only [ck, if_false, hd, nbrRow, List.foldl_nil]
      exact ⟨D, I, F, _, rfl, hR⟩

/-- the model's outer fold from row `pp` on -/
def nbrRows (g : Graph P) (l : List (List Int × List P)) (pp : Nat) : Graph P :=
  (l.zipIdx pp).foldl (fun g rowi => nbrRow rowi.2 g (rowi.1.1.zip rowi.1.2)) g

theorem nbrRows_size (l : List (List Int × List P)) (g : Graph P) (pp : Nat) : (nbrRows g l pp).size = g.size := by
  induction l generalizing g pp with
  | nil => rfl
  | cons x l ih =>
    simp only [nbrRows, List.zipIdx_cons, List.foldl_cons] at ih ⊢
    rw [ih, nbrRow_size]

theorem initFromNeighborGraph_eq (g : Graph P) (indices : List (List Int)) (dists : List (List P)) :
    initFromNeighborGraph g indices dists = nbrRows g (indices.zip dists) 0 := rfl

theorem nbr_loop0_spec (k : Nat) (hk : 0 < k) (indices : Array (Array Int)) (distances : Array (Array P)) (w : Nat)
    (hsz : distances.size = indices.size)
    (hw : ∀ r (h : r < indices.size), indices[r].size = w ∧ (distances[r]'(by omega)).size = w) :
    ∀ (fuel : Nat) (D : Array (Array P)) (I F : Array (Array Int)) (g : Graph P) (pp : Nat),
    Rep k D I F g → indices.size ≤ g.size → pp ≤ indices.size → (indices.size - pp) + w + k + 2 ≤ fuel →
    ∃ D' I' F' p', init_from_neighbor_graph.loop0 indices distances (indices.size : Int) fuel D I F (pp : Int)
        = some (.next (D', I', F', p')) ∧
      Rep k D' I' F' (nbrRows g (((indices.toList.map (·.toList)).zip (distances.toList.map (·.toList))).drop pp) pp) := by
  intro fuel
  induction fuel with
  | zero => intro D I F g pp hR hn hpp hf; omega
  | succ fuel ih =>
    intro D I F g pp hR hn hpp hf
    unfold init_from_neighbor_graph.loop0
    by_cases hlt : pp < indices.size
    · have cp : ((pp : Nat) : Int) < (indices.size : Int) := by omega
      have ep : ((pp : Nat) : Int) + 1 = ((pp + 1 : Nat) : Int) := by push_cast; rfl
      have hnc : ncols indices = w := by
        have h0 : 0 < indices.size := by omega
        simp [ncols, h0, (hw 0 h0).1]
      have hd : ((indices.toList.map (·.toList)).zip (distances.toList.map (·.toList))).drop pp
          = (indices[pp].toList, (distances[pp]'(by omega)).toList)
            :: ((indices.toList.map (·.toList)).zip (distances.toList.map (·.toList))).drop (pp+1) := by
        rw [List.drop_eq_getElem_cons (by simp; omega)]; simp
      obtain ⟨D1, I1, F1, k1, h1, hR1⟩ := nbr_loop1_spec k hk indices distances pp w hlt (by omega) (hw pp hlt).1 (hw pp hlt).2
        fuel D I F g 0 hR (by omega) (by omega) (by omega)
      simp only [List.drop_zero, Int.natCast_zero] at h1 hR1
      simp only [cp, if_true, hnc, h1, Option.bind_eq_bind, Option.bind_some, ep, hd, nbrRows, List.zipIdx_cons,
        List.foldl_cons]
      exact ih D1 I1 F1 _ (pp+1) hR1 (by rw [nbrRow_size]; exact hn) (by omega) (by omega)
    · have cp : ¬ ((pp : Nat) : Int) < (indices.size : Int) := by omega
      have hd : ((indices.toList.map (·.toList)).zip (distances.toList.map (·.toList))).drop pp = [] := by
        apply List.drop_eq_nil_of_le; simp; omega
      simp only [cp, if_false, hd, nbrRows, List.zipIdx_nil, List.foldl_nil]
      exact ⟨D, I, F, _, rfl, hR⟩

/-- **`init_from_neighbor_graph` (translated) refines `initFromNeighborGraph`.** -/
theorem init_from_neighbor_graph_refines (k : Nat) (hk : 0 < k) (I : Array (Array Int)) (D : Array (Array P))
    (F : Array (Array Int)) (indices : Array (Array Int)) (distances : Array (Array P)) (w : Nat)
    (hI : I.size = D.size) (hF : F.size = D.size)
    (hrect : ∀ r (h : r < D.size), D[r].size = k ∧ (I[r]'(by omega)).size = k ∧ (F[r]'(by omega)).size = k)
    (hsz : distances.size = indices.size) (hn : indices.size ≤ D.size)
    (hw : ∀ r (h : r < indices.size), indices[r].size = w ∧ (distances[r]'(by omega)).size = w)
    (fuel : Nat) (hf : indices.size + w + k + 2 ≤ fuel) :
    ∃ I' D' F', GenK.init_from_neighbor_graph fuel I D F indices distances = some (I', D', F') ∧
      D'.size = D.size ∧ I'.size = D.size ∧ F'.size = D.size ∧
      (∀ r (h : r < D'.size) (h' : r < I'.size) (h'' : r < F'.size),
        D'[r].size = k ∧ I'[r].size = k ∧ F'[r].size = k) ∧
      zipGraph D' I' F' = initFromNeighborGraph (zipGraph D I F) (indices.toList.map (·.toList))
        (distances.toList.map (·.toList)) := by
  have hR := rep_zipGraph k D I F hI hF hrect
  have hs0 : (zipGraph D I F).size = D.size := hR.sD.symm
  obtain ⟨D', I', F', p', h1, hR'⟩ := nbr_loop0_spec k hk indices distances w hsz hw fuel D I F (zipGraph D I F) 0 hR
    (by omega) (by omega) (by omega)
  simp only [List.drop_zero, Int.natCast_zero] at h1 hR'
  rw [← initFromNeighborGraph_eq] at hR'
  unfold GenK.init_from_neighbor_graph
  simp only [h1, Option.bind_eq_bind, Option.bind_some]
  have a1 := hR'.sD; have a2 := hR'.sI; have a3 := hR'.sF
  have hs : (initFromNeighborGraph (zipGraph D I F) (indices.toList.map (·.toList))
      (distances.toList.map (·.toList))).size = D.size := by
    rw [initFromNeighborGraph_eq, nbrRows_size, hs0]
  refine ⟨I', D', F', rfl, by omega, by omega, by omega, ?_, hR'.zipGraph_eq⟩
  intro r h h' h''
  obtain ⟨b1, b2, b3, _⟩ := hR'.row r (by omega)
  exact ⟨b1, b2, b3⟩

theorem zipGraph_replicate (top : P) (n k : Nat) :
    zipGraph (Array.replicate n (Array.replicate k top)) (Array.replicate n (Array.replicate k (-1 : Int)))
      (Array.replicate n (Array.replicate k (0 : Int))) = mkGraph top n k := by
  apply Array.ext
  · simp [zipGraph, mkGraph]
  · intro r h1 h2
    simp [zipGraph, mkGraph, zip3_replicate]

end Pynn
