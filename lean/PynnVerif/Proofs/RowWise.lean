import PynnVerif.Proofs.GraphInv
import PynnVerif.Proofs.TopK
import Batteries.Data.List.Perm

/-! # Row-wise characterisation of the update-application kernels

`init_rp_tree` (`applyBoth`) and `apply_graph_updates_low_memory` (`applyLow T`) touch the
graph only through `pushInto`, and one `pushInto` touches one row.  Consequently the final
content of row `r` is `feed g[r] (offersFor r ups)`: the row fed, in update order, with the
offers addressed to it — independently of the number of threads.  The change count is the
number of accepted pushes, which is likewise a sum of per-row quantities (`feedCount`).
-/
namespace Pynn
variable {P : Type} [LinearOrder P]

/-! ## `pushInto`: frame -/

@[simp] theorem pushInto_size (g : Graph P) (r : Nat) (d : P) (q : Int) (f : Bool) :
    (pushInto g r d q f).1.size = g.size := by
  unfold pushInto; split <;> simp

/-- one `pushInto` changes row `r` only (and nothing when `r` is out of range) -/
theorem pushInto_row? (g : Graph P) (r : Nat) (d : P) (q : Int) (f : Bool) (i : Nat) :
    (pushInto g r d q f).1[i]? =
      if i = r then g[r]?.map (fun row => (pushFlagged row d q f).1) else g[i]? := by
  unfold pushInto
  split
  · rename_i h
    simp only [Array.getElem?_set]
    by_cases hir : i = r
    · subst hir; simp [h]
    · simp [hir, Ne.symm hir]
  · rename_i h
    by_cases hir : i = r
    · subst hir
      have : g[i]? = none := by simp; omega
      simp [this]
    · simp [hir]

theorem pushInto_of_size_le (g : Graph P) (r : Nat) (d : P) (q : Int) (f : Bool)
    (h : g.size ≤ r) : pushInto g r d q f = (g, false) := by
  unfold pushInto; simp; omega

theorem pushInto_of_lt (g : Graph P) (r : Nat) (d : P) (q : Int) (f : Bool) (h : r < g.size) :
    pushInto g r d q f = (g.set r (pushFlagged g[r] d q f).1, (pushFlagged g[r] d q f).2) := by
  unfold pushInto; simp [h]

theorem pushInto_getElem_self (g : Graph P) (r : Nat) (d : P) (q : Int) (f : Bool) (hr : r < g.size)
    (hr' : r < (pushInto g r d q f).1.size) :
    (pushInto g r d q f).1[r] = (pushFlagged g[r] d q f).1 := by
  have := pushInto_row? g r d q f r
  rw [Array.getElem?_eq_getElem hr', Array.getElem?_eq_getElem hr] at this
  simpa using this

/-- a rejected `pushInto` leaves the graph unchanged -/
theorem pushInto_reject (g : Graph P) (r : Nat) (d : P) (q : Int) (f : Bool)
    (h : (pushInto g r d q f).2 = false) : (pushInto g r d q f).1 = g := by
  by_cases hr : r < g.size
  · rw [pushInto_of_lt g r d q f hr] at h ⊢
    simp only at h ⊢
    rw [push_reject true g[r] d q f h]
    simp
  · rw [pushInto_of_size_le g r d q f (by omega)]

/-! ## `feed` and its change count -/

theorem feed_nil (row : Row P) : feed row [] = row := rfl

theorem feed_cons (row : Row P) (o : P × Int) (os : List (P × Int)) :
    feed row (o :: os) = feed (pushFlagged row o.1 o.2 true).1 os := rfl

theorem feed_append (row : Row P) (a b : List (P × Int)) :
    feed row (a ++ b) = feed (feed row a) b := by
  simp [feed, List.foldl_append]

@[simp] theorem feed_size (row : Row P) (os : List (P × Int)) : (feed row os).size = row.size := by
  induction os generalizing row with
  | nil => rfl
  | cons o os ih => rw [feed_cons, ih, push_size]

/-- number of accepted pushes while feeding `offers` to `row` -/
def feedCount (row : Row P) : List (P × Int) → Nat
  | [] => 0
  | o :: os => (if (pushFlagged row o.1 o.2 true).2 then 1 else 0) +
      feedCount (pushFlagged row o.1 o.2 true).1 os

theorem feedCount_append (row : Row P) (a b : List (P × Int)) :
    feedCount row (a ++ b) = feedCount row a + feedCount (feed row a) b := by
  induction a generalizing row with
  | nil => simp [feedCount, feed_nil]
  | cons o a ih => simp only [List.cons_append, feedCount, feed_cons, ih]; omega

/-! ## the offers of a row -/

omit [LinearOrder P] in
theorem offersFor_nil (r : Nat) : offersFor r ([] : List (Upd P)) = [] := rfl

omit [LinearOrder P] in
theorem offersFor_cons (r : Nat) (u : Upd P) (ups : List (Upd P)) :
    offersFor r (u :: ups) =
      ((if u.p = r then [(u.d, (u.q : Int))] else []) ++
       (if u.q = r then [(u.d, (u.p : Int))] else [])) ++ offersFor r ups := by
  simp [offersFor]

omit [LinearOrder P] in
theorem offersFor_append (r : Nat) (a b : List (Upd P)) :
    offersFor r (a ++ b) = offersFor r a ++ offersFor r b := by
  simp [offersFor]

omit [LinearOrder P] in
theorem mem_offersFor (r : Nat) (ups : List (Upd P)) (o : P × Int) :
    o ∈ offersFor r ups ↔
      ∃ u ∈ ups, (u.p = r ∧ o = (u.d, (u.q : Int))) ∨ (u.q = r ∧ o = (u.d, (u.p : Int))) := by
  simp only [offersFor, List.mem_flatMap, List.mem_append]
  constructor
  · rintro ⟨u, hu, h | h⟩
    · refine ⟨u, hu, Or.inl ?_⟩
      split at h <;> simp_all
    · refine ⟨u, hu, Or.inr ?_⟩
      split at h <;> simp_all
  · rintro ⟨u, hu, ⟨h1, h2⟩ | ⟨h1, h2⟩⟩
    · exact ⟨u, hu, Or.inl (by simp [h1, h2])⟩
    · exact ⟨u, hu, Or.inr (by simp [h1, h2])⟩

/-! ## `applyBoth` (the sequential application of `init_rp_tree`) -/

theorem applyBoth_row (g : Graph P) (u : Upd P) (r : Nat) :
    (applyBoth g u)[r]? = g[r]?.map (fun row => feed row (offersFor r [u])) := by
  simp only [applyBoth, pushInto_row?, offersFor_cons, offersFor_nil, List.append_nil]
  by_cases h1 : r = u.p <;> by_cases h2 : r = u.q
  · subst h1
    simp only [← h2, ↓reduceIte, Option.map_map]
    rfl
  · subst h1
    have : ¬ u.q = u.p := fun h => h2 h.symm
    simp only [h2, this, ↓reduceIte, List.append_nil]
    rfl
  · subst h2
    have : ¬ u.p = u.q := fun h => h1 h.symm
    simp only [h1, this, ↓reduceIte, List.nil_append]
    rfl
  · have h1' : ¬ u.p = r := fun h => h1 h.symm
    have h2' : ¬ u.q = r := fun h => h2 h.symm
    simp [h1, h2, h1', h2', feed_nil]

@[simp] theorem applyBoth_size (g : Graph P) (u : Upd P) : (applyBoth g u).size = g.size := by
  simp [applyBoth]

/-- **Row-wise characterisation of `init_rp_tree`'s application loop.** -/
theorem applyBoth_fold_row (g : Graph P) (ups : List (Upd P)) (r : Nat) :
    (ups.foldl applyBoth g)[r]? = g[r]?.map (fun row => feed row (offersFor r ups)) := by
  induction ups generalizing g with
  | nil => simp [offersFor_nil, feed_nil]
  | cons u ups ih =>
    rw [List.foldl_cons, ih, applyBoth_row, Option.map_map]
    congr 1
    funext row
    simp only [Function.comp]
    rw [show u :: ups = [u] ++ ups from rfl, offersFor_append, feed_append]

@[simp] theorem applyBoth_fold_size (g : Graph P) (ups : List (Upd P)) :
    (ups.foldl applyBoth g).size = g.size := by
  induction ups generalizing g with
  | nil => rfl
  | cons u ups ih => rw [List.foldl_cons, ih, applyBoth_size]

/-! ## counted pushes; the sequential reference `applySeq` -/

/-- one counted push `(row, d, candidate)`: the body of both branches of the low-memory loop -/
def stepC (acc : Graph P × Nat) (o : Nat × P × Int) : Graph P × Nat :=
  let r := pushInto acc.1 o.1 o.2.1 o.2.2 true
  (r.1, acc.2 + (if r.2 then 1 else 0))

/-- the pushes an update list asks for, in sequential order: `(d,q)` into row `p`, then `(d,p)`
into row `q` -/
def pushesOf (ups : List (Upd P)) : List (Nat × P × Int) :=
  ups.flatMap (fun u => [(u.p, u.d, (u.q : Int)), (u.q, u.d, (u.p : Int))])

/-- sequential application with change count (what one thread, `T = 1`, does) -/
def applySeq (g : Graph P) (ups : List (Upd P)) : Graph P × Nat :=
  (pushesOf ups).foldl stepC (g, 0)

omit [LinearOrder P] in
theorem pushesOf_cons (u : Upd P) (ups : List (Upd P)) :
    pushesOf (u :: ups) = (u.p, u.d, (u.q : Int)) :: (u.q, u.d, (u.p : Int)) :: pushesOf ups := by
  simp [pushesOf]

/-- the accept bit of a `pushInto` depends on the addressed row only -/
theorem pushInto_snd (g : Graph P) (r : Nat) (d : P) (q : Int) (f : Bool) :
    (pushInto g r d q f).2 = (g[r]?.map (fun row => (pushFlagged row d q f).2)).getD false := by
  unfold pushInto
  split
  · rename_i h; simp [h]
  · rename_i h
    have : g[r]? = none := by simp; omega
    simp [this]

theorem pushInto_snd_congr {g g' : Graph P} {r : Nat} (h : g[r]? = g'[r]?) (d : P) (q : Int)
    (f : Bool) : (pushInto g r d q f).2 = (pushInto g' r d q f).2 := by
  rw [pushInto_snd, pushInto_snd, h]

/-- pushes into different rows commute (graph and count) -/
theorem stepC_comm (acc : Graph P × Nat) (a b : Nat × P × Int) (hne : a.1 ≠ b.1) :
    stepC (stepC acc a) b = stepC (stepC acc b) a := by
  obtain ⟨g, c⟩ := acc
  obtain ⟨ra, da, qa⟩ := a
  obtain ⟨rb, db, qb⟩ := b
  simp only at hne
  have e1 : (pushInto (pushInto g ra da qa true).1 rb db qb true).2 = (pushInto g rb db qb true).2 :=
    pushInto_snd_congr (by rw [pushInto_row?, if_neg (Ne.symm hne)]) _ _ _
  have e2 : (pushInto (pushInto g rb db qb true).1 ra da qa true).2 = (pushInto g ra da qa true).2 :=
    pushInto_snd_congr (by rw [pushInto_row?, if_neg hne]) _ _ _
  simp only [stepC, e1, e2, Prod.mk.injEq]
  constructor
  · apply Array.ext_getElem?
    intro i
    simp only [pushInto_row?]
    by_cases hia : i = ra <;> by_cases hib : i = rb
    · omega
    · simp [hia, hne]
    · simp [hib, Ne.symm hne]
    · simp [hia, hib]
  · omega

/-- a push commutes past a run of pushes into other rows -/
theorem foldl_stepC_comm (acc : Graph P × Nat) (x : Nat × P × Int) (M : List (Nat × P × Int))
    (hM : ∀ y ∈ M, y.1 ≠ x.1) :
    M.foldl stepC (stepC acc x) = stepC (M.foldl stepC acc) x := by
  induction M generalizing acc with
  | nil => rfl
  | cons y M ih =>
    rw [List.foldl_cons, List.foldl_cons, ← ih _ (fun z hz => hM z (List.mem_cons_of_mem _ hz)),
      stepC_comm acc x y (Ne.symm (hM y (by simp)))]

/-- two row-determined, disjoint selections of the push list, run one after the other, equal
the single in-order run of their union -/
theorem foldl_stepC_filter_merge (A B : Nat → Bool) (hAB : ∀ r, A r = true → B r = false)
    (L : List (Nat × P × Int)) (acc : Graph P × Nat) :
    (L.filter (fun o => B o.1)).foldl stepC ((L.filter (fun o => A o.1)).foldl stepC acc) =
      (L.filter (fun o => A o.1 || B o.1)).foldl stepC acc := by
  induction L generalizing acc with
  | nil => rfl
  | cons x L ih =>
    by_cases hA : A x.1 = true
    · have hB := hAB _ hA
      simp only [List.filter_cons, hA, hB, Bool.or_false, ↓reduceIte, List.foldl_cons,
        Bool.false_eq_true]
      exact ih _
    · have hA' : A x.1 = false := by simpa using hA
      by_cases hB : B x.1 = true
      · simp only [List.filter_cons, hA', hB, Bool.or_true, ↓reduceIte, List.foldl_cons,
          Bool.false_eq_true]
        rw [← ih (stepC acc x), foldl_stepC_comm acc x]
        intro y hy heq
        have hy' := (List.mem_filter.mp hy).2
        rw [heq] at hy'
        exact hA hy'
      · have hB' : B x.1 = false := by simpa using hB
        simp only [List.filter_cons, hA', hB', Bool.or_self, ↓reduceIte, Bool.false_eq_true]
        exact ih _

/-! ## `applyLow`: one thread is a filtered run -/

/-- the body of the update loop of thread `t` -/
def lowBody (T t : Nat) (acc : Graph P × Nat) (u : Upd P) : Graph P × Nat :=
  let acc := if u.p % T = t then
      let r := pushInto acc.1 u.p u.d u.q true
      (r.1, acc.2 + (if r.2 then 1 else 0))
    else acc
  if u.q % T = t then
    let r := pushInto acc.1 u.q u.d u.p true
    (r.1, acc.2 + (if r.2 then 1 else 0))
  else acc

theorem applyLow_eq_lowBody (T : Nat) (g : Graph P) (ups : List (Upd P)) :
    applyLow T g ups = (List.range T).foldl (fun acc t => ups.foldl (lowBody T t) acc) (g, 0) := rfl

theorem lowThread_eq_filter (T t : Nat) (ups : List (Upd P)) (acc : Graph P × Nat) :
    ups.foldl (lowBody T t) acc =
      ((pushesOf ups).filter (fun o => decide (o.1 % T = t))).foldl stepC acc := by
  induction ups generalizing acc with
  | nil => rfl
  | cons u ups ih =>
    rw [List.foldl_cons, ih, pushesOf_cons]
    by_cases h1 : u.p % T = t <;> by_cases h2 : u.q % T = t <;>
      simp [h1, h2, lowBody, stepC]

/-- threads `0..m-1` together perform, in update order, the pushes into rows `r` with `r % T < m` -/
theorem lowThreads_eq_filter (T : Nat) (ups : List (Upd P)) (acc : Graph P × Nat) (m : Nat) :
    (List.range m).foldl (fun acc t => ups.foldl (lowBody T t) acc) acc =
      ((pushesOf ups).filter (fun o => decide (o.1 % T < m))).foldl stepC acc := by
  induction m with
  | zero =>
    have : (pushesOf ups).filter (fun o => decide (o.1 % T < 0)) = [] := by
      rw [List.filter_eq_nil_iff]; intro a _; simp
    rw [this]; rfl
  | succ m ih =>
    rw [List.range_succ, List.foldl_append, ih, List.foldl_cons, List.foldl_nil, lowThread_eq_filter]
    have := foldl_stepC_filter_merge (fun r => decide (r % T < m)) (fun r => decide (r % T = m))
      (by intro r hr; simp at hr ⊢; omega) (pushesOf ups) acc
    rw [this]
    congr 1
    apply List.filter_congr
    intro o _
    simp only [← Bool.decide_or]
    apply decide_eq_decide.mpr
    omega

/-- **`apply_graph_updates_low_memory` with any positive number of threads equals the
sequential application** (graph and change count). -/
theorem applyLow_eq_applySeq (T : Nat) (hT : 0 < T) (g : Graph P) (ups : List (Upd P)) :
    applyLow T g ups = applySeq g ups := by
  rw [applyLow_eq_lowBody, lowThreads_eq_filter, applySeq]
  congr 1
  rw [List.filter_eq_self]
  intro o _
  simpa using Nat.mod_lt _ hT

/-- the thread count is irrelevant -/
theorem applyLow_threads_irrelevant (T T' : Nat) (hT : 0 < T) (hT' : 0 < T') (g : Graph P)
    (ups : List (Upd P)) : applyLow T g ups = applyLow T' g ups := by
  rw [applyLow_eq_applySeq T hT, applyLow_eq_applySeq T' hT']

/-! ## the graph component is `applyBoth`; the count is a sum over rows -/

theorem foldl_stepC_fst (ups : List (Upd P)) (acc : Graph P × Nat) :
    ((pushesOf ups).foldl stepC acc).1 = ups.foldl applyBoth acc.1 := by
  induction ups generalizing acc with
  | nil => rfl
  | cons u ups ih =>
    rw [pushesOf_cons, List.foldl_cons, List.foldl_cons, ih, List.foldl_cons]
    rfl

theorem applySeq_fst (g : Graph P) (ups : List (Upd P)) :
    (applySeq g ups).1 = ups.foldl applyBoth g := foldl_stepC_fst ups (g, 0)

theorem applyLow_fst (T : Nat) (hT : 0 < T) (g : Graph P) (ups : List (Upd P)) :
    (applyLow T g ups).1 = ups.foldl applyBoth g := by
  rw [applyLow_eq_applySeq T hT, applySeq_fst]

/-- **Row-wise characterisation of the low-memory application.** -/
theorem applyLow_row (T : Nat) (hT : 0 < T) (g : Graph P) (ups : List (Upd P)) (r : Nat) :
    (applyLow T g ups).1[r]? = g[r]?.map (fun row => feed row (offersFor r ups)) := by
  rw [applyLow_fst T hT, applyBoth_fold_row]

@[simp] theorem applyLow_size (T : Nat) (hT : 0 < T) (g : Graph P) (ups : List (Upd P)) :
    (applyLow T g ups).1.size = g.size := by
  rw [applyLow_fst T hT, applyBoth_fold_size]

/-! ## the change count is a sum of per-row feed counts -/

/-- the offers row `r` receives from a push list -/
def offersOf (r : Nat) (L : List (Nat × P × Int)) : List (P × Int) :=
  (L.filter (fun o => decide (o.1 = r))).map (·.2)

omit [LinearOrder P] in
theorem offersOf_pushesOf (r : Nat) (ups : List (Upd P)) :
    offersOf r (pushesOf ups) = offersFor r ups := by
  induction ups with
  | nil => rfl
  | cons u ups ih =>
    rw [pushesOf_cons, offersFor_cons, ← ih]
    by_cases h1 : u.p = r <;> by_cases h2 : u.q = r <;> simp [offersOf, h1, h2]

/-- accepted pushes of row `r` (0 for a row that does not exist) -/
def rowCountL (g : Graph P) (L : List (Nat × P × Int)) (r : Nat) : Nat :=
  (g[r]?.map (fun row => feedCount row (offersOf r L))).getD 0

theorem sum_map_zero {α : Type} (l : List α) : (l.map (fun _ => 0)).sum = 0 := by
  induction l <;> simp_all

theorem sum_range_congr (f f' : Nat → Nat) (n : Nat) (h : ∀ r, r < n → f r = f' r) :
    ((List.range n).map f).sum = ((List.range n).map f').sum := by
  congr 1
  apply List.map_congr_left
  intro r hr
  exact h r (List.mem_range.mp hr)

theorem sum_range_bump (f f' : Nat → Nat) (n i δ : Nat) (hi : i < n)
    (h : ∀ r, r ≠ i → f r = f' r) (hi' : f i = δ + f' i) :
    ((List.range n).map f).sum = δ + ((List.range n).map f').sum := by
  induction n with
  | zero => omega
  | succ n ih =>
    rw [List.range_succ, List.map_append, List.map_append, List.sum_append, List.sum_append]
    simp only [List.map_cons, List.map_nil, List.sum_cons, List.sum_nil, Nat.add_zero]
    by_cases hin : i = n
    · subst hin
      rw [sum_range_congr f f' i (fun r hr => h r (by omega)), hi']
      omega
    · rw [ih (by omega), h n (fun e => hin e.symm)]
      omega

theorem stepC_count (g : Graph P) (c : Nat) (x : Nat × P × Int) (L : List (Nat × P × Int)) :
    c + ((List.range g.size).map (rowCountL g (x :: L))).sum =
      (stepC (g, c) x).2 + ((List.range g.size).map (rowCountL (stepC (g, c) x).1 L)).sum := by
  obtain ⟨r, d, q⟩ := x
  simp only [stepC]
  by_cases hr : r < g.size
  · have hother : ∀ i, i ≠ r → rowCountL g ((r, d, q) :: L) i =
        rowCountL (pushInto g r d q true).1 L i := by
      intro i hi
      have : ¬ r = i := fun e => hi e.symm
      simp [rowCountL, pushInto_row?, hi, offersOf, this]
    have hself : rowCountL g ((r, d, q) :: L) r =
        (if (pushInto g r d q true).2 then 1 else 0) + rowCountL (pushInto g r d q true).1 L r := by
      simp [rowCountL, pushInto_snd, offersOf, hr, feedCount, pushInto_getElem_self]
    rw [sum_range_bump _ _ g.size r _ hr hother hself]
    omega
  · rw [pushInto_of_size_le g r d q true (by omega)]
    simp only [Bool.false_eq_true, ↓reduceIte, Nat.add_zero, Nat.add_left_cancel_iff]
    apply sum_range_congr
    intro i hi
    have : ¬ r = i := by omega
    simp [rowCountL, offersOf, this]

theorem foldl_stepC_count (L : List (Nat × P × Int)) (g : Graph P) (c : Nat) :
    (L.foldl stepC (g, c)).2 = c + ((List.range g.size).map (rowCountL g L)).sum := by
  induction L generalizing g c with
  | nil =>
    have : ((List.range g.size).map (rowCountL g ([] : List (Nat × P × Int)))).sum
        = ((List.range g.size).map (fun _ => 0)).sum := by
      apply sum_range_congr
      intro r _
      cases h : g[r]? <;> simp [rowCountL, offersOf, feedCount, h]
    rw [this, sum_map_zero]
    rfl
  | cons x L ih =>
    rw [List.foldl_cons, stepC_count g c x L]
    have hs : (stepC (g, c) x).1.size = g.size := by simp [stepC]
    rw [← hs]
    exact ih _ _

/-- **The change count of the low-memory application is the sum, over the rows, of the number
of pushes the row's feed accepts** — it depends on the per-row feeds only. -/
theorem applyLow_count (T : Nat) (hT : 0 < T) (g : Graph P) (ups : List (Upd P)) :
    (applyLow T g ups).2 =
      ((List.range g.size).map (fun r =>
        (g[r]?.map (fun row => feedCount row (offersFor r ups))).getD 0)).sum := by
  rw [applyLow_eq_applySeq T hT, applySeq, foldl_stepC_count, Nat.zero_add]
  apply sum_range_congr
  intro r _
  simp [rowCountL, offersOf_pushesOf]

/-! ## the self pair `(p, p, 0)` of the local join -/

/-- a candidate that is held is rejected (whatever its distance) -/
theorem push_dup (h : Row P) (p : P) (n : Int) (f : Bool) (hheld : ∃ e ∈ h, e.idx = n) :
    push true h p n f = (h, false) := by
  have hrej : (push true h p n f).2 = false := by
    cases hacc : (push true h p n f).2
    · rfl
    · obtain ⟨_, _, hscan⟩ := (push_accept_iff true h p n f).mp hacc
      obtain ⟨e, he, heq⟩ := hheld
      exact absurd heq (hscan rfl e he)
  exact Prod.ext (push_reject true h p n f hrej) hrej

/-- the accept decision does not look at the flag -/
theorem push_snd_flag (c : Bool) (h : Row P) (p : P) (n : Int) (f f' : Bool) :
    (push c h p n f).2 = (push c h p n f').2 := by
  rw [Bool.eq_iff_iff, push_accept_iff, push_accept_iff]

/-- pushing the same `(d, candidate)` a second time into the same row is a no-op: a duplicate
if the first push was accepted, rejected for the same reason otherwise -/
theorem push_twice (h : Row P) (p : P) (n : Int) (f f' : Bool) :
    push true (push true h p n f).1 p n f' = ((push true h p n f).1, false) := by
  cases hacc : (push true h p n f).2
  · rw [push_reject true h p n f hacc]
    have h2 : (push true h p n f').2 = false := by rw [← push_snd_flag true h p n f f', hacc]
    exact Prod.ext (push_reject true h p n f' h2) h2
  · apply push_dup
    obtain ⟨hk, _, _⟩ := (push_accept_iff true h p n f).mp hacc
    have hmem := mem_of_perm_set (x := ⟨p, n, f⟩) hk (push_perm true h p n f hacc)
    exact ⟨⟨p, n, f⟩, (hmem _).mpr (Or.inl rfl), rfl⟩

theorem pushInto_twice (g : Graph P) (r : Nat) (d : P) (q : Int) (f f' : Bool) :
    pushInto (pushInto g r d q f).1 r d q f' = ((pushInto g r d q f).1, false) := by
  by_cases hr : r < g.size
  · have hr' : r < (pushInto g r d q f).1.size := by simpa using hr
    rw [pushInto_of_lt _ r d q f' hr']
    have hrow := pushInto_getElem_self g r d q f hr hr'
    rw [hrow, show pushFlagged (pushFlagged g[r] d q f).1 d q f' = _ from push_twice g[r] d q f f']
    simp only [Prod.mk.injEq, and_true]
    apply Array.ext_getElem?
    intro i
    rw [Array.getElem?_set]
    split
    · rename_i h; subst h; rw [Array.getElem?_eq_getElem hr', hrow]
    · rfl
  · rw [pushInto_of_size_le g r d q f (by omega), pushInto_of_size_le g r d q f' (by omega)]

/-- **Self pair.**  For `u.p = u.q` (the `(p, p, 0)` updates emitted by the `k ≥ j` enumeration of
the local join) row `p` is offered `(d, p)` twice in a row; the second offer changes neither the
row nor the count. -/
theorem self_pair_noop (row : Row P) (d : P) (p : Int) :
    feed row [(d, p), (d, p)] = feed row [(d, p)] ∧
    feedCount row [(d, p), (d, p)] = feedCount row [(d, p)] := by
  simp [feed, feedCount, push_twice]

omit [LinearOrder P] in
theorem offersFor_self (u : Upd P) (h : u.p = u.q) :
    offersFor u.p [u] = [(u.d, (u.p : Int)), (u.d, (u.p : Int))] := by
  simp [offersFor, ← h]

/-! ## a single leaf on an empty graph (`init_rp_tree`) -/

omit [LinearOrder P] in
theorem chunks_singleton {α : Type} (size : Nat) (x : α) : chunks size [x] = [[x]] := by
  rw [chunks]
  by_cases hs : size = 0
  · simp [hs]
  · have h1 : [x].take size = [x] := List.take_of_length_le (by simp; omega)
    have h2 : [x].drop size = [] := List.drop_of_length_le (by simp; omega)
    simp only [hs, List.cons_ne_self, or_self, ↓reduceDIte, h1, h2]
    rw [chunks]
    simp

omit [LinearOrder P] in
/-- on the empty graph every threshold is `top` -/
theorem threshold_mkGraph (top : P) (n k p : Nat) : threshold top (mkGraph top n k) p = top := by
  unfold threshold mkGraph
  by_cases hp : p < n
  · simp only [Array.getElem?_replicate, hp, ↓reduceIte]
    by_cases hk : 0 < k
    · simp [mkRow, hk]
    · simp [mkRow, hk]
  · simp [hp]

theorem mem_of_mem_pairsLt {a b : Nat} {V : List Nat} (h : (a, b) ∈ pairsLt V) : a ∈ V ∧ b ∈ V := by
  induction V with
  | nil => simp [pairsLt] at h
  | cons v V ih =>
    simp only [pairsLt, List.mem_append, List.mem_map, Prod.mk.injEq] at h
    rcases h with ⟨q, hq, rfl, rfl⟩ | h
    · simp [hq]
    · have := ih h
      simp [this.1, this.2]

theorem ne_of_mem_pairsLt {a b : Nat} {V : List Nat} (hV : V.Nodup) (h : (a, b) ∈ pairsLt V) : a ≠ b := by
  induction V with
  | nil => simp [pairsLt] at h
  | cons v V ih =>
    simp only [pairsLt, List.mem_append, List.mem_map, Prod.mk.injEq] at h
    rw [List.nodup_cons] at hV
    rcases h with ⟨q, hq, rfl, rfl⟩ | h
    · intro e; subst e; exact hV.1 hq
    · exact ih hV.2 h

theorem mem_pairsLt_of_mem {a b : Nat} {V : List Nat} (ha : a ∈ V) (hb : b ∈ V) (hne : a ≠ b) :
    (a, b) ∈ pairsLt V ∨ (b, a) ∈ pairsLt V := by
  induction V with
  | nil => simp at ha
  | cons v V ih =>
    simp only [pairsLt, List.mem_append, List.mem_map, Prod.mk.injEq]
    rcases List.mem_cons.mp ha with rfl | ha' <;> rcases List.mem_cons.mp hb with rfl | hb'
    · exact absurd rfl hne
    · exact Or.inl (Or.inl ⟨b, hb', rfl, rfl⟩)
    · exact Or.inr (Or.inl ⟨a, ha', rfl, rfl⟩)
    · rcases ih ha' hb' with h | h
      · exact Or.inl (Or.inr h)
      · exact Or.inr (Or.inr h)

theorem filterMap_eq_map_of {α β : Type} (l : List α) (f : α → Option β) (g : α → β)
    (h : ∀ x ∈ l, f x = some (g x)) : l.filterMap f = l.map g := by
  induction l with
  | nil => rfl
  | cons a l ih =>
    rw [List.filterMap_cons, h a (by simp), List.map_cons, ih (fun x hx => h x (List.mem_cons_of_mem _ hx))]

/-- with all thresholds at `top` and finite distances, `generate_leaf_updates` emits every pair -/
theorem leafUpdates_top (top : P) (dist : Nat → Nat → P) (row : List Int)
    (hfin : ∀ pq ∈ pairsLt (takeValid row), dist pq.1 pq.2 < top) :
    leafUpdates (fun _ => top) dist row =
      (pairsLt (takeValid row)).map (fun pq => (⟨pq.1, pq.2, dist pq.1 pq.2⟩ : Upd P)) := by
  unfold leafUpdates
  apply filterMap_eq_map_of
  intro pq hpq
  simp [hfin pq hpq]

/-- feeding offers `(d q, q)` is the push fold of `Proofs/TopK.lean` -/
theorem feed_eq_foldl_push (d : Nat → P) (row : Row P) (L : List Nat) :
    feed row (L.map (fun q => (d q, (q : Int)))) =
      (L.map (fun q => (q, true))).foldl (fun h o => (push true h (d o.1) o.1 o.2).1) row := by
  simp [feed, List.foldl_map]

omit [LinearOrder P] in
theorem offers_eq_map (d : Nat → P) (offs : List (P × Int))
    (h : ∀ o ∈ offs, 0 ≤ o.2 ∧ o.1 = d o.2.toNat) :
    offs = (offs.map (fun o => o.2.toNat)).map (fun q => (d q, (q : Int))) := by
  rw [List.map_map]
  conv => lhs; rw [← List.map_id offs]
  apply List.map_congr_left
  intro o ho
  obtain ⟨h0, h1⟩ := h o ho
  simp only [id, Function.comp]
  rw [← h1, Int.toNat_of_nonneg h0]

omit [LinearOrder P] in
/-- the offers a row receives from a single leaf over the empty graph: from exactly the other
members of the leaf, each with its true distance -/
theorem offersFor_leaf (dist : Nat → Nat → P) (hsymm : ∀ a b, dist a b = dist b a) (V : List Nat)
    (hV : V.Nodup) (p : Nat) (hp : p ∈ V) :
    let ups := (pairsLt V).map (fun pq => (⟨pq.1, pq.2, dist pq.1 pq.2⟩ : Upd P))
    (∀ o ∈ offersFor p ups, 0 ≤ o.2 ∧ o.1 = dist p o.2.toNat) ∧
    (∀ q : Nat, q ∈ (offersFor p ups).map (fun o => o.2.toNat) ↔ q ∈ V ∧ q ≠ p) := by
  intro ups
  have hmem : ∀ o, o ∈ offersFor p ups ↔
      ∃ a b, (a, b) ∈ pairsLt V ∧ ((a = p ∧ o = (dist a b, (b : Int))) ∨ (b = p ∧ o = (dist a b, (a : Int)))) := by
    intro o
    rw [mem_offersFor]
    constructor
    · rintro ⟨u, hu, h⟩
      obtain ⟨pq, hpq, rfl⟩ := List.mem_map.mp hu
      exact ⟨pq.1, pq.2, hpq, h⟩
    · rintro ⟨a, b, hab, h⟩
      exact ⟨⟨a, b, dist a b⟩, List.mem_map.mpr ⟨(a, b), hab, rfl⟩, h⟩
  constructor
  · intro o ho
    obtain ⟨a, b, _, (⟨rfl, rfl⟩ | ⟨rfl, rfl⟩)⟩ := (hmem o).mp ho
    · simp
    · simp [hsymm]
  · intro q
    simp only [List.mem_map]
    constructor
    · rintro ⟨o, ho, rfl⟩
      obtain ⟨a, b, hab, (⟨rfl, rfl⟩ | ⟨rfl, rfl⟩)⟩ := (hmem o).mp ho
      · simp only [Int.toNat_natCast]
        exact ⟨(mem_of_mem_pairsLt hab).2, (ne_of_mem_pairsLt hV hab).symm⟩
      · simp only [Int.toNat_natCast]
        exact ⟨(mem_of_mem_pairsLt hab).1, ne_of_mem_pairsLt hV hab⟩
    · rintro ⟨hq, hne⟩
      rcases mem_pairsLt_of_mem hp hq (Ne.symm hne) with h | h
      · exact ⟨(dist p q, (q : Int)), (hmem _).mpr ⟨p, q, h, Or.inl ⟨rfl, rfl⟩⟩, by simp⟩
      · exact ⟨(dist q p, (q : Int)), (hmem _).mpr ⟨q, p, h, Or.inr ⟨rfl, rfl⟩⟩, by simp⟩

/-- a full-or-all row with at least `k` distinct finite offers is full -/
theorem RowInv.full_of_many {top : P} {d : Nat → P} {offers : List (Nat × Bool)} {h : Row P}
    (hinv : RowInv top d offers h) (htop : ∀ x : P, x ≤ top) (S : List Nat) (hS : S.Nodup)
    (hSo : ∀ q ∈ S, ∃ f, (q, f) ∈ offers) (hfin : ∀ q ∈ S, d q < top) (hlen : h.size ≤ S.length) :
    ∀ e ∈ h, 0 ≤ e.idx := by
  rcases hinv.full_or_all htop with hfull | hall
  · exact hfull
  · intro e0 he0
    apply Classical.byContradiction
    intro hneg
    -- all of `S` is held among the real entries, which are fewer than `h.size`
    let held := (h.toList.filter (fun e => decide (0 ≤ e.idx))).map (·.idx)
    have hsub : (S.map (fun q : Nat => (q : Int))) ⊆ held := by
      intro x hx
      obtain ⟨q, hq, rfl⟩ := List.mem_map.mp hx
      obtain ⟨f, hf⟩ := hSo q hq
      obtain ⟨e, he, heq⟩ := hall (q, f) hf (hfin q hq)
      refine List.mem_map.mpr ⟨e, List.mem_filter.mpr ⟨Array.mem_toList_iff.mpr he, ?_⟩, heq⟩
      simp [heq]
    have hnd : (S.map (fun q : Nat => (q : Int))).Nodup :=
      List.Pairwise.map _ (fun a b hab => by intro e; apply hab; omega) hS
    have hle := (List.subperm_of_subset hnd hsub).length_le
    have hlt : held.length < h.size := by
      simp only [held, List.length_map]
      have : (h.toList.filter (fun e => decide (0 ≤ e.idx))).length < h.toList.length := by
        apply List.length_filter_lt_length_iff_exists.mpr
        exact ⟨e0, Array.mem_toList_iff.mpr he0, by simpa using hneg⟩
      simpa using this
    simp only [List.length_map] at hle
    omega

end Pynn
