import PynnVerif.Proofs.GenApply

/-!
# The translated `utils.apply_graph_updates_high_memory` refines the NN-descent model's `applyHigh`

`in_graph` (a list of sets of ints in the Python, used only through `x in in_graph[r]` and `in_graph[r].add(x)`) is
translated as `Array (List Int)` — `add` conses, `in` is list membership — which is literally the model's `InGraph`.
-/
set_option linter.unusedSectionVars false
set_option linter.unusedSimpArgs false
set_option linter.unusedVariables false
namespace Pynn
open GenK
variable {P : Type} [LE P] [LT P] [DecidableLE P] [DecidableLT P]

/-- the body of the model's fold (`applyHigh` is `foldl highStep`) -/
def highStep (acc : (Graph P × Nat) × InGraph) (u : Upd P) : (Graph P × Nat) × InGraph :=
  let g := acc.1.1; let c := acc.1.2; let s := acc.2
  let p : Int := u.p; let q : Int := u.q
  if s.has u.p q && s.has u.q p then acc else
    let acc1 : (Graph P × Nat) × InGraph :=
      if s.has u.p q then acc else
        let r := pushInto g u.p u.d q true
        if r.2 then ((r.1, c + 1), s.add u.p q) else ((r.1, c), s)
    let g := acc1.1.1; let c := acc1.1.2; let s := acc1.2
    if u.p = u.q || s.has u.q p then acc1 else
      let r := pushInto g u.q u.d p true
      if r.2 then ((r.1, c + 1), s.add u.q p) else ((r.1, c), s)

theorem applyHigh_eq_highStep (g : Graph P) (ups : List (Upd P)) (s : InGraph) :
    applyHigh g ups s = ups.foldl highStep ((g, 0), s) := rfl

omit [LE P] [LT P] [DecidableLE P] [DecidableLT P] in
/-- `if x in in_graph[r]: A else: B` -/
theorem memb_bind {β : Type} (s : InGraph) (r : Nat) (hr : r < s.size) (x : Int) (A B : Option β) :
    ((rd s (r : Int)).bind fun l => if l.contains x = true then A else B) = if s.has r x = true then A else B := by
  simp [rd_lt s r hr, InGraph.has, hr]

omit [LE P] [LT P] [DecidableLE P] [DecidableLT P] in
/-- `in_graph[r].add(x)` -/
theorem add_bind {β : Type} (s : InGraph) (r : Nat) (hr : r < s.size) (x : Int) (K : InGraph → Option β) :
    ((rd s (r : Int)).bind fun l => (wr s (r : Int) (x :: l)).bind K) = K (s.add r x) := by
  simp [rd_lt s r hr, wr_lt s r _ hr, InGraph.add, hr, Array.setIfInBounds, hr]

omit [LE P] [LT P] [DecidableLE P] [DecidableLT P] in
theorem add_size' (s : InGraph) (r : Nat) (x : Int) : (s.add r x).size = s.size := by
  unfold InGraph.add; split <;> simp

theorem added_pos (b : Bool) : ((if b then (1 : Int) else 0) > 0) ↔ b = true := by cases b <;> simp

theorem cast_succ_if (c : Nat) (b : Bool) (hb : b = true) : (c : Int) + (if b then (1 : Int) else 0) = ((c + 1 : Nat) : Int) := by
  subst hb; simp

theorem highStep_gsize (acc : (Graph P × Nat) × InGraph) (u : Upd P) :
    (highStep acc u).1.1.size = acc.1.1.size := by
  unfold highStep
  simp only
  split
  · rfl
  · split <;> split <;> (try split) <;> (try split) <;> simp

theorem highStep_ssize (acc : (Graph P × Nat) × InGraph) (u : Upd P) :
    (highStep acc u).2.size = acc.2.size := by
  unfold highStep
  simp only
  split
  · rfl
  · split <;> split <;> (try split) <;> (try split) <;> simp [add_size']

theorem foldl_highStep_sizes (l : List (Upd P)) (acc : (Graph P × Nat) × InGraph) :
    (l.foldl highStep acc).1.1.size = acc.1.1.size ∧ (l.foldl highStep acc).2.size = acc.2.size := by
  induction l generalizing acc with
  | nil => exact ⟨rfl, rfl⟩
  | cons u l ih =>
    rw [List.foldl_cons]
    exact ⟨(ih _).1.trans (highStep_gsize _ _), (ih _).2.trans (highStep_ssize _ _)⟩

theorem cast_succ1 (c : Nat) : (c : Int) + 1 = ((c + 1 : Nat) : Int) := by push_cast; rfl

theorem high_loop1_spec (k : Nat) (hk : 0 < k) (updates : Array (Array (Int × Int × P))) (i : Nat)
    (hi : i < updates.size) :
    ∀ (fuel : Nat) (c : Nat) (D : Array (Array P)) (I F : Array (Array Int)) (g : Graph P) (s : InGraph) (j : Nat),
    Rep k D I F g → s.size = g.size → j ≤ updates[i].size → (updates[i].size - j) + k + 1 ≤ fuel →
    (∀ x ∈ updates[i].toList, OkTriple g.size x) →
    ∃ D' I' F' j', apply_graph_updates_high_memory.loop1 updates (i : Int) (updates[i].size : Int)
        fuel D I F (c : Int) s (j : Int)
      = some (.next (D', I', F',
          ((((updates[i].toList.drop j).filterMap updOf).foldl highStep ((g, c), s)).1.2 : Nat),
          (((updates[i].toList.drop j).filterMap updOf).foldl highStep ((g, c), s)).2, j')) ∧
      Rep k D' I' F' (((updates[i].toList.drop j).filterMap updOf).foldl highStep ((g, c), s)).1.1 := by
  intro fuel
  induction fuel with
  | zero => intro c D I F g s j hR hs hj hf hok; omega
  | succ fuel ih =>
    intro c D I F g s j hR hs hj hf hok
    unfold apply_graph_updates_high_memory.loop1
    by_cases hlt : j < updates[i].size
    · have cj : ((j : Nat) : Int) < (updates[i].size : Int) := by omega
      have ej : ((j : Nat) : Int) + 1 = ((j + 1 : Nat) : Int) := by push_cast; rfl
      have hd : updates[i].toList.drop j = updates[i][j] :: updates[i].toList.drop (j+1) := by
        rw [List.drop_eq_getElem_cons (by simpa using hlt)]; simp
      rcases hx : updates[i][j] with ⟨p, q, d⟩
      simp only [cj, if_true, rd_lt updates i hi, rd_lt updates[i] j hlt, Option.bind_eq_bind, Option.bind_some, hx, ej, hd,
        List.filterMap_cons]
      have hmem : OkTriple g.size (p, q, d) := by
        rw [← hx]; exact hok _ (by simp)
      by_cases hp1 : p = -1
      · subst hp1
        have hu : updOf ((-1 : Int), q, d) = none := by simp [updOf]
        simp only [if_true, hu]
        exact ih c D I F g s (j+1) hR hs (by omega) (by omega) hok
      by_cases hq1 : q = -1
      · subst hq1
        have hu : updOf (p, (-1 : Int), d) = none := by simp [updOf]
        simp only [hp1, if_true, if_false, hu]
        exact ih c D I F g s (j+1) hR hs (by omega) (by omega) hok
      obtain ⟨hp0, hpn, hq0, hqn⟩ : 0 ≤ p ∧ p < g.size ∧ 0 ≤ q ∧ q < g.size := by
        rcases hmem with h | h | h
        · exact absurd h hp1
        · exact absurd h hq1
        · exact h
      obtain ⟨pn, rfl⟩ := Int.eq_ofNat_of_zero_le hp0
      obtain ⟨qn, rfl⟩ := Int.eq_ofNat_of_zero_le hq0
      have hu : updOf ((pn : Int), (qn : Int), d) = some ⟨pn, qn, d⟩ := by
        simp [updOf, hp1, hq1]
      have hpn' : pn < g.size := by omega
      have hqn' : qn < g.size := by omega
      have hps : pn < s.size := by omega
      have hqs : qn < s.size := by omega
      simp only [hp1, hq1, if_false, hu, List.foldl_cons, memb_bind s pn hps, memb_bind s qn hqs, Int.natCast_inj]
      -- the second guarded push (into row `qn`), from any intermediate state
      have second : ∀ (c1 : Nat) (D1 : Array (Array P)) (I1 F1 : Array (Array Int)) (g1 : Graph P) (s1 : InGraph),
          Rep k D1 I1 F1 g1 → s1.size = g1.size → g1.size = g.size → pn ≠ qn → s1.has qn (pn : Int) = false →
          ∃ D' I' F' j',
            ((rd D1 (qn : Int)).bind fun a => (rd I1 (qn : Int)).bind fun b => (rd F1 (qn : Int)).bind fun e =>
              (checked_flagged_heap_push fuel a b e d (pn : Int) 1).bind fun x =>
                (wr D1 (qn : Int) x.1).bind fun D2 => (wr I1 (qn : Int) x.2.1).bind fun I2 =>
                  (wr F1 (qn : Int) x.2.2.1).bind fun F2 =>
                    if x.2.2.2 > 0 then
                      (rd s1 (qn : Int)).bind fun l => (wr s1 (qn : Int) ((pn : Int) :: l)).bind fun s2 =>
                        apply_graph_updates_high_memory.loop1 updates (i : Int) (updates[i].size : Int) fuel D2 I2 F2
                          ((c1 : Int) + x.2.2.2) s2 ((j + 1 : Nat) : Int)
                    else
                      apply_graph_updates_high_memory.loop1 updates (i : Int) (updates[i].size : Int) fuel D2 I2 F2
                        (c1 : Int) s1 ((j + 1 : Nat) : Int))
            = some (.next (D', I', F',
                (((List.filterMap updOf (List.drop (j + 1) updates[i].toList)).foldl highStep
                  (let r := pushInto g1 qn d (pn : Int) true
                   if r.2 then ((r.1, c1 + 1), s1.add qn (pn : Int)) else ((r.1, c1), s1))).1.2 : Nat),
                ((List.filterMap updOf (List.drop (j + 1) updates[i].toList)).foldl highStep
                  (let r := pushInto g1 qn d (pn : Int) true
                   if r.2 then ((r.1, c1 + 1), s1.add qn (pn : Int)) else ((r.1, c1), s1))).2, j')) ∧
            Rep k D' I' F' ((List.filterMap updOf (List.drop (j + 1) updates[i].toList)).foldl highStep
                  (let r := pushInto g1 qn d (pn : Int) true
                   if r.2 then ((r.1, c1 + 1), s1.add qn (pn : Int)) else ((r.1, c1), s1))).1.1 := by
        intro c1 D1 I1 F1 g1 s1 hR1 hs1 hg1 hne hB1
        obtain ⟨D2, I2, F2, _, _, _, hR2, hK2⟩ := push_row_bind k hk D1 I1 F1 g1 hR1 qn (by omega) d (pn : Int) fuel (by omega)
        rw [hK2]
        simp only [added_pos]
        by_cases hacc : (pushInto g1 qn d (pn : Int) true).2 = true
        · simp only [hacc, if_true, add_bind s1 qn (by omega), cast_succ_if c1 _ hacc, cast_succ1]
          exact ih (c1 + 1) D2 I2 F2 _ (s1.add qn pn) (j+1) hR2 (by rw [add_size']; simp; omega) (by omega) (by omega)
            (by simpa [hg1] using hok)
        · simp only [hacc, if_false, Bool.false_eq_true]
          exact ih c1 D2 I2 F2 _ s1 (j+1) hR2 (by simp; omega) (by omega) (by omega) (by simpa [hg1] using hok)
      cases hA : s.has pn (qn : Int)
      · -- not recorded for row `pn`: push into row `pn`
        obtain ⟨D1, I1, F1, _, _, _, hR1, hK1⟩ := push_row_bind k hk D I F g hR pn hpn' d (qn : Int) fuel (by omega)
        simp only [Bool.false_eq_true, if_false, hK1, added_pos]
        by_cases hacc : (pushInto g pn d (qn : Int) true).2 = true
        · have hs1 : (s.add pn (qn : Int)).size = (pushInto g pn d (qn : Int) true).1.size := by
            rw [add_size']; simp; omega
          simp only [hacc, if_true, add_bind s pn hps, cast_succ_if c _ hacc, cast_succ1,
            memb_bind (s.add pn (qn : Int)) qn (by rw [add_size']; omega)]
          by_cases hpq : pn = qn
          · subst hpq
            have hst : highStep ((g, c), s) ⟨pn, pn, d⟩
                = (((pushInto g pn d (pn : Int) true).1, c + 1), s.add pn (pn : Int)) := by
              simp [highStep, hA, hacc]
            simp only [if_true, hst]
            exact ih (c + 1) D1 I1 F1 _ _ (j+1) hR1 hs1 (by omega) (by omega) (by simpa using hok)
          · cases hB1 : (s.add pn (qn : Int)).has qn (pn : Int)
            · have hst : highStep ((g, c), s) ⟨pn, qn, d⟩
                  = (let r := pushInto (pushInto g pn d (qn : Int) true).1 qn d (pn : Int) true
                     if r.2 then ((r.1, c + 1 + 1), (s.add pn (qn : Int)).add qn (pn : Int))
                     else ((r.1, c + 1), s.add pn (qn : Int))) := by
                simp [highStep, hA, hacc, hpq, hB1]
              simp only [hpq, if_false, Bool.false_eq_true, hst]
              exact second (c + 1) D1 I1 F1 _ _ hR1 hs1 (by simp) hpq hB1
            · have hst : highStep ((g, c), s) ⟨pn, qn, d⟩
                  = (((pushInto g pn d (qn : Int) true).1, c + 1), s.add pn (qn : Int)) := by
                simp [highStep, hA, hacc, hpq, hB1]
              simp only [hpq, if_false, if_true, hst]
              exact ih (c + 1) D1 I1 F1 _ _ (j+1) hR1 hs1 (by omega) (by omega) (by simpa using hok)
        · have hs1 : s.size = (pushInto g pn d (qn : Int) true).1.size := by simp; omega
          simp only [hacc, if_false, Bool.false_eq_true]
          by_cases hpq : pn = qn
          · subst hpq
            have hst : highStep ((g, c), s) ⟨pn, pn, d⟩ = (((pushInto g pn d (pn : Int) true).1, c), s) := by
              simp [highStep, hA, hacc]
            simp only [if_true, hst]
            exact ih c D1 I1 F1 _ _ (j+1) hR1 hs1 (by omega) (by omega) (by simpa using hok)
          · cases hB : s.has qn (pn : Int)
            · have hst : highStep ((g, c), s) ⟨pn, qn, d⟩
                  = (let r := pushInto (pushInto g pn d (qn : Int) true).1 qn d (pn : Int) true
                     if r.2 then ((r.1, c + 1), s.add qn (pn : Int)) else ((r.1, c), s)) := by
                simp [highStep, hA, hacc, hpq, hB]
              simp only [hpq, if_false, Bool.false_eq_true, hst]
              exact second c D1 I1 F1 _ _ hR1 hs1 (by simp) hpq hB
            · have hst : highStep ((g, c), s) ⟨pn, qn, d⟩ = (((pushInto g pn d (qn : Int) true).1, c), s) := by
                simp [highStep, hA, hacc, hpq, hB]
              simp only [hpq, if_false, if_true, hst]
              exact ih c D1 I1 F1 _ _ (j+1) hR1 hs1 (by omega) (by omega) (by simpa using hok)
      · cases hB : s.has qn (pn : Int)
        · have hpq : pn ≠ qn := by
            intro h; subst h; rw [hA] at hB; exact Bool.noConfusion hB
          have hst : highStep ((g, c), s) ⟨pn, qn, d⟩
              = (let r := pushInto g qn d (pn : Int) true
                 if r.2 then ((r.1, c + 1), s.add qn (pn : Int)) else ((r.1, c), s)) := by
            simp [highStep, hA, hpq, hB]
          simp only [if_true, hpq, if_false, Bool.false_eq_true, hst]
          exact second c D I F g s hR hs rfl hpq hB
        · have hst : highStep ((g, c), s) ⟨pn, qn, d⟩ = ((g, c), s) := by simp [highStep, hA, hB]
          simp only [if_true, hst]
          exact ih c D I F g s (j+1) hR hs (by omega) (by omega) hok
    · have cj : ¬ ((j : Nat) : Int) < (updates[i].size : Int) := by omega
      have hd : updates[i].toList.drop j = [] := by
        apply List.drop_eq_nil_of_le; simp; omega
      simp only [cj, if_false, hd, List.filterMap_nil, List.foldl_nil]
      exact ⟨D, I, F, _, rfl, hR⟩

theorem high_loop0_spec (k : Nat) (hk : 0 < k) (updates : Array (Array (Int × Int × P))) (M : Nat)
    (hM : ∀ b ∈ updates.toList, b.size ≤ M) :
    ∀ (fuel : Nat) (c : Nat) (D : Array (Array P)) (I F : Array (Array Int)) (g : Graph P) (s : InGraph) (i : Nat),
    Rep k D I F g → s.size = g.size → i ≤ updates.size → (updates.size - i) + M + k + 2 ≤ fuel →
    (∀ b ∈ updates.toList, ∀ x ∈ b.toList, OkTriple g.size x) →
    ∃ D' I' F' i', apply_graph_updates_high_memory.loop0 updates (updates.size : Int) fuel D I F (c : Int) s (i : Int)
      = some (.next (D', I', F',
          (((updsOfBlocks (updates.toList.drop i)).foldl highStep ((g, c), s)).1.2 : Nat),
          ((updsOfBlocks (updates.toList.drop i)).foldl highStep ((g, c), s)).2, i')) ∧
      Rep k D' I' F' ((updsOfBlocks (updates.toList.drop i)).foldl highStep ((g, c), s)).1.1 := by
  intro fuel
  induction fuel with
  | zero => intro c D I F g s i hR hs hi hf hok; omega
  | succ fuel ih =>
    intro c D I F g s i hR hs hi hf hok
    unfold apply_graph_updates_high_memory.loop0
    by_cases hlt : i < updates.size
    · have ci : ((i : Nat) : Int) < (updates.size : Int) := by omega
      have ei : ((i : Nat) : Int) + 1 = ((i + 1 : Nat) : Int) := by push_cast; rfl
      have hd : updates.toList.drop i = updates[i] :: updates.toList.drop (i+1) := by
        rw [List.drop_eq_getElem_cons (by simpa using hlt)]; simp
      have hmem : updates[i] ∈ updates.toList := by simp
      obtain ⟨D1, I1, F1, j1, h2, hR1⟩ := high_loop1_spec k hk updates i hlt fuel c D I F g s 0 hR hs (by omega)
        (by have := hM _ hmem; omega) (hok _ hmem)
      simp only [List.drop_zero, Int.natCast_zero] at h2 hR1
      simp only [ci, if_true, rd_lt updates i hlt, Option.bind_eq_bind, Option.bind_some, h2, ei, hd,
        updsOfBlocks_cons, List.foldl_append]
      have hsz := foldl_highStep_sizes (List.filterMap updOf updates[i].toList) ((g, c), s)
      generalize List.foldl highStep ((g, c), s) (List.filterMap updOf updates[i].toList) = X at hR1 hsz ⊢
      obtain ⟨⟨g1, c1⟩, s1⟩ := X
      simp only at hsz hR1 ⊢
      exact ih c1 D1 I1 F1 g1 s1 (i+1) hR1 (by omega) (by omega) (by omega) (by rw [hsz.1]; exact hok)
    · have ci : ¬ ((i : Nat) : Int) < (updates.size : Int) := by omega
      have hd : updates.toList.drop i = [] := by
        apply List.drop_eq_nil_of_le; simp; omega
      simp only [ci, if_false, hd, updsOfBlocks, List.flatMap_nil, List.filterMap_nil, List.foldl_nil]
      exact ⟨D, I, F, _, rfl, hR⟩

/-- **`apply_graph_updates_high_memory` (translated) refines `applyHigh`.** -/
theorem apply_graph_updates_high_memory_refines (k : Nat) (hk : 0 < k) (I : Array (Array Int)) (D : Array (Array P))
    (F : Array (Array Int)) (updates : Array (Array (Int × Int × P))) (s : InGraph) (M : Nat)
    (hI : I.size = D.size) (hF : F.size = D.size) (hS : s.size = D.size)
    (hrect : ∀ r (h : r < D.size), D[r].size = k ∧ (I[r]'(by omega)).size = k ∧ (F[r]'(by omega)).size = k)
    (hM : ∀ b ∈ updates.toList, b.size ≤ M)
    (hok : ∀ b ∈ updates.toList, ∀ x ∈ b.toList, OkTriple D.size x)
    (fuel : Nat) (hf : updates.size + M + k + 2 ≤ fuel) :
    ∃ I' D' F', GenK.apply_graph_updates_high_memory fuel I D F updates s
        = some (I', D', F', (applyHigh (zipGraph D I F) (updsOf updates) s).2,
                (((applyHigh (zipGraph D I F) (updsOf updates) s).1.2 : Nat) : Int)) ∧
      Rep k D' I' F' (applyHigh (zipGraph D I F) (updsOf updates) s).1.1 := by
  have hR := rep_zipGraph k D I F hI hF hrect
  have hsz : (zipGraph D I F).size = D.size := hR.sD.symm
  obtain ⟨D', I', F', i', h1, hR'⟩ := high_loop0_spec k hk updates M hM fuel 0 D I F (zipGraph D I F) s 0 hR
    (by omega) (by omega) (by omega) (by rw [hsz]; exact hok)
  simp only [List.drop_zero, Int.natCast_zero] at h1 hR'
  have hu : updsOfBlocks updates.toList = updsOf updates := rfl
  rw [hu, ← applyHigh_eq_highStep] at h1 hR'
  unfold GenK.apply_graph_updates_high_memory
  simp only [h1, Option.bind_eq_bind, Option.bind_some]
  exact ⟨I', D', F', rfl, hR'⟩

/-- with `Rep` spelled out -/
theorem apply_graph_updates_high_memory_refines' (k : Nat) (hk : 0 < k) (I : Array (Array Int)) (D : Array (Array P))
    (F : Array (Array Int)) (updates : Array (Array (Int × Int × P))) (s : InGraph) (M : Nat)
    (hI : I.size = D.size) (hF : F.size = D.size) (hS : s.size = D.size)
    (hrect : ∀ r (h : r < D.size), D[r].size = k ∧ (I[r]'(by omega)).size = k ∧ (F[r]'(by omega)).size = k)
    (hM : ∀ b ∈ updates.toList, b.size ≤ M)
    (hok : ∀ b ∈ updates.toList, ∀ x ∈ b.toList, OkTriple D.size x)
    (fuel : Nat) (hf : updates.size + M + k + 2 ≤ fuel) :
    ∃ I' D' F', GenK.apply_graph_updates_high_memory fuel I D F updates s
        = some (I', D', F', (applyHigh (zipGraph D I F) (updsOf updates) s).2,
                (((applyHigh (zipGraph D I F) (updsOf updates) s).1.2 : Nat) : Int)) ∧
      D'.size = D.size ∧ I'.size = D.size ∧ F'.size = D.size ∧
      (∀ r (h : r < D'.size) (h' : r < I'.size) (h'' : r < F'.size),
        D'[r].size = k ∧ I'[r].size = k ∧ F'[r].size = k) ∧
      zipGraph D' I' F' = (applyHigh (zipGraph D I F) (updsOf updates) s).1.1 := by
  obtain ⟨I', D', F', h1, hR⟩ := apply_graph_updates_high_memory_refines k hk I D F updates s M hI hF hS hrect hM hok fuel hf
  have hs0 : (zipGraph D I F).size = D.size := by simp [zipGraph]; omega
  have hs : (applyHigh (zipGraph D I F) (updsOf updates) s).1.1.size = D.size := by
    rw [applyHigh_eq_highStep, (foldl_highStep_sizes _ _).1, hs0]
  have a1 := hR.sD; have a2 := hR.sI; have a3 := hR.sF
  refine ⟨I', D', F', h1, by omega, by omega, by omega, ?_, hR.zipGraph_eq⟩
  intro r h h' h''
  obtain ⟨b1, b2, b3, _⟩ := hR.row r (by omega)
  exact ⟨b1, b2, b3⟩

end Pynn
