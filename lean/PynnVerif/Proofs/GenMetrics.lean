import PynnVerif.Gen.MetricKernels
import PynnVerif.Model.Metrics2

/-! # The translated dense metric kernels of `distances.py` refine the hand-written model

`Gen/MetricKernels.lean` (namespace `Pynn.GenMetric`) is regenerated from the source text of
`pynndescent/distances.py` by `harness/translate_metrics.py`; here: for every input with
`x.size = y.size` and fuel `≥ x.size + 1` each translated kernel is `some` (no out-of-bounds
load, enough fuel) of what the model of `Model/Metrics.lean` / `Model/Metrics2.lean` computes on
`x.toList`, `y.toList` — over every carrier `[Arith α]` (no arithmetic law is used), except the
counting kernels, which need `CountLaws α`. -/
set_option linter.unusedSectionVars false
set_option linter.unusedVariables false
set_option linter.unusedSimpArgs false
namespace Pynn.GenMetricProofs
open Pynn.Metrics Pynn.GenMetric

/-! ### loads at natural-number cursors -/

theorem rd_lt {β : Type} (a : Array β) (k : Nat) (h : k < a.size) : rd a (k : Int) = some a[k] := by
  simp [rd, h]

/-! ### the loops of the model as folds from a cursor -/
section Folds
variable {α β : Type}

/-- `for i in range(k, n): b = g(b, x[i], y[i])` -/
def fold2 (g : β → α → α → β) (x y : Array α) (k : Nat) (b : β) : β :=
  ((x.toList.drop k).zip (y.toList.drop k)).foldl (fun r p => g r p.1 p.2) b

/-- `for i in range(k, n): b = g(b, x[i])` -/
def fold1 (g : β → α → β) (x : Array α) (k : Nat) (b : β) : β := (x.toList.drop k).foldl g b

/-- `for i in range(k, n): b = g(b, x[i], y[i], s[i])` -/
def fold3 (g : β → α → α → α → β) (x y s : Array α) (k : Nat) (b : β) : β :=
  (((x.toList.drop k).zip (y.toList.drop k)).zip (s.toList.drop k)).foldl
    (fun r p => g r p.1.1 p.1.2 p.2) b

theorem drop_cons (x : Array α) (k : Nat) (h : k < x.size) :
    x.toList.drop k = x[k] :: x.toList.drop (k + 1) := by
  rw [List.drop_eq_getElem_cons (by simpa using h)]; simp

theorem fold2_lt (g : β → α → α → β) (x y : Array α) (k : Nat) (b : β) (hx : k < x.size)
    (hy : k < y.size) : fold2 g x y k b = fold2 g x y (k + 1) (g b x[k] y[k]) := by
  simp only [fold2, drop_cons x k hx, drop_cons y k hy, List.zip_cons_cons, List.foldl_cons]

theorem fold2_ge (g : β → α → α → β) (x y : Array α) (k : Nat) (b : β) (hx : x.size ≤ k) :
    fold2 g x y k b = b := by
  have e : x.toList.drop k = [] := List.drop_eq_nil_of_le (by simp; exact hx)
  simp [fold2, e]

theorem fold1_lt (g : β → α → β) (x : Array α) (k : Nat) (b : β) (hx : k < x.size) :
    fold1 g x k b = fold1 g x (k + 1) (g b x[k]) := by
  simp only [fold1, drop_cons x k hx, List.foldl_cons]

theorem fold1_ge (g : β → α → β) (x : Array α) (k : Nat) (b : β) (hx : x.size ≤ k) :
    fold1 g x k b = b := by
  have e : x.toList.drop k = [] := List.drop_eq_nil_of_le (by simp; exact hx)
  simp [fold1, e]

theorem fold3_lt (g : β → α → α → α → β) (x y s : Array α) (k : Nat) (b : β) (hx : k < x.size)
    (hy : k < y.size) (hs : k < s.size) :
    fold3 g x y s k b = fold3 g x y s (k + 1) (g b x[k] y[k] s[k]) := by
  simp only [fold3, drop_cons x k hx, drop_cons y k hy, drop_cons s k hs, List.zip_cons_cons,
    List.foldl_cons]

theorem fold3_ge (g : β → α → α → α → β) (x y s : Array α) (k : Nat) (b : β) (hx : x.size ≤ k) :
    fold3 g x y s k b = b := by
  have e : x.toList.drop k = [] := List.drop_eq_nil_of_le (by simp; exact hx)
  simp [fold3, e]

end Folds

/-- the uniform proof of a loop lemma
`∀ fuel k, k ≤ x.size → x.size - k + 1 ≤ fuel → ∀ acc…, <loop> x y … ↑x.size fuel acc… ↑k = some (.next (fold… , ↑x.size))`:
induction on the fuel; in range: unfold one iteration of the translated loop (`$eqn`), resolve
the loads, advance every fold by one step and apply the induction hypothesis; at the end: every
fold is its accumulator. -/
syntax "metric_loop " ident " with " ident ident (ident)? : tactic
macro_rules
  | `(tactic| metric_loop $eqn with $x $hxy) => `(tactic| (
      intro fuel
      induction fuel with
      | zero => intro k hk hf; omega
      | succ fuel ih =>
        intro k hk hf
        intros
        rw [$eqn:ident]
        by_cases c : k < Array.size $x
        · have c' : (k : Int) < ((Array.size $x : Nat) : Int) := Int.ofNat_lt.2 c
          have ek : (k : Int) + 1 = ((k + 1 : Nat) : Int) := by omega
          simp only [c', if_true, rd_lt _ k c, rd_lt _ k (($hxy) ▸ c), Option.bind_eq_bind,
            Option.bind_some, ek, Option.pure_def,
            fold2_lt _ _ _ k _ c (($hxy) ▸ c), fold1_lt _ _ k _ c, fold1_lt _ _ k _ (($hxy) ▸ c)]
          first
            | exact ih (k + 1) (by omega) (by omega) ..
            | (split <;> exact ih (k + 1) (by omega) (by omega) ..)
        · have c' : ¬ (k : Int) < ((Array.size $x : Nat) : Int) := by omega
          have e : k = Array.size $x := by omega
          subst e
          simp only [c', if_false, Option.pure_def, fold2_ge _ _ _ _ _ (Nat.le_refl _),
            fold1_ge _ _ _ _ (Nat.le_refl _), fold1_ge _ _ _ _ (Nat.le_of_eq ($hxy).symm)])
      )

macro_rules
  | `(tactic| metric_loop $eqn with $x $hxy $hxs) => `(tactic| (
      intro fuel
      induction fuel with
      | zero => intro k hk hf; omega
      | succ fuel ih =>
        intro k hk hf
        intros
        rw [$eqn:ident]
        by_cases c : k < Array.size $x
        · have c' : (k : Int) < ((Array.size $x : Nat) : Int) := Int.ofNat_lt.2 c
          have ek : (k : Int) + 1 = ((k + 1 : Nat) : Int) := by omega
          simp only [c', if_true, rd_lt _ k c, rd_lt _ k (($hxy) ▸ c), rd_lt _ k (($hxs) ▸ c),
            Option.bind_eq_bind, Option.bind_some, ek, Option.pure_def,
            fold3_lt _ _ _ _ k _ c (($hxy) ▸ c) (($hxs) ▸ c)]
          exact ih (k + 1) (by omega) (by omega) ..
        · have c' : ¬ (k : Int) < ((Array.size $x : Nat) : Int) := by omega
          have e : k = Array.size $x := by omega
          subst e
          simp only [c', if_false, Option.pure_def, fold3_ge _ _ _ _ _ _ (Nat.le_refl _)])
      )

section Kernels
variable {α : Type} [Arith α]

theorem e0 : ((0 : Nat) : Int) = 0 := rfl

theorem some_ite {β : Type} (c : Prop) [Decidable c] (a b : β) :
    some (if c then a else b) = if c then some a else some b := by
  split <;> rfl

theorem ite_some_eq {β : Type} (c : Prop) [i1 : Decidable c] [i2 : Decidable c] (a b : β) :
    (@ite _ c i1 (some a) (some b)) = some (@ite _ c i2 a b) := by
  have := Subsingleton.elim i1 i2
  subst this
  split <;> rfl

/-- the same through nested `if`s (`elif` chains): branch by branch -/
theorem ite_some_congr {β : Type} (c : Prop) [i1 : Decidable c] [i2 : Decidable c] {t e : Option β}
    {t' e' : β} (ht : t = some t') (he : e = some e') :
    (@ite _ c i1 t e) = some (@ite _ c i2 t' e') := by
  subst ht he
  exact @ite_some_eq β c i1 i2 t' e'

theorem length_two {β : Type} {l : List β} (h : l.length = 2) : ∃ a b, l = [a, b] := by
  match l, h with
  | [a, b], _ => exact ⟨a, b, rfl⟩

theorem sumBy_eq (f : α → α → α) (x y : Array α) :
    sumBy f x.toList y.toList = fold2 (fun r a b => r + f a b) x y 0 0 := rfl

theorem sum1_eq (f : α → α) (x : Array α) :
    sum1 f x.toList = fold1 (fun r a => r + f a) x 0 0 := rfl

/-! ### Minkowski family -/

theorem euclidean_loop (x y : Array α) (h : x.size = y.size) :
    ∀ (fuel k : Nat), k ≤ x.size → x.size - k + 1 ≤ fuel → ∀ (r : α),
      euclidean.loop0 x y (x.size : Int) fuel r (k : Int)
        = some (.next (fold2 (fun r a b => r + sqDiff a b) x y k r, (x.size : Int))) := by
  metric_loop euclidean.loop0 with x h

theorem euclidean_refines (x y : Array α) (h : x.size = y.size) (fuel : Nat) (hf : x.size + 1 ≤ fuel) :
    GenMetric.euclidean fuel x y = some (Metrics.euclidean x.toList y.toList) := by
  have L := euclidean_loop x y h fuel 0 (by omega) (by omega)
  rw [e0] at L
  simp only [GenMetric.euclidean, L, Option.bind_eq_bind, Option.bind_some, Option.pure_def]
  rfl

theorem cosine_loop0 (x y : Array α) (h : x.size = y.size) :
    ∀ (fuel k : Nat), k ≤ x.size → x.size - k + 1 ≤ fuel → ∀ (r nx ny : α),
      cosine.loop0 x y (x.size : Int) fuel r nx ny (k : Int)
        = some (.next (fold2 (fun r a b => r + a * b) x y k r, fold1 (fun r a => r + a * a) x k nx,
            fold1 (fun r a => r + a * a) y k ny, (x.size : Int))) := by
  metric_loop cosine.loop0 with x h

theorem cosine_refines (x y : Array α) (h : x.size = y.size) (fuel : Nat) (hf : x.size + 1 ≤ fuel) :
    GenMetric.cosine fuel x y = some (Metrics.cosine x.toList y.toList) := by
  have L := cosine_loop0 x y h fuel 0 (by omega) (by omega)
  rw [e0] at L
  simp only [GenMetric.cosine, L, Option.bind_eq_bind, Option.bind_some, Option.pure_def]
  simp only [Metrics.cosine, some_ite]
  rfl

/-! ### counting: the code adds `1.0` / `0.0` to a float accumulator, the model counts in `Nat` -/

/-- what relates the two: true in `ℝ`, and in IEEE arithmetic below 2^53 -/
structure CountLaws (α : Type) [Arith α] : Prop where
  ofNat_zero : (Arith.ofNat 0 : α) = 0
  ofNat_succ : ∀ n : Nat, (Arith.ofNat (n + 1) : α) = Arith.ofNat n + 1
  add_zero : ∀ a : α, a + 0 = a

theorem count_foldl (hc : CountLaws α) {γ : Type} (P : γ → Bool) (l : List γ) (n : Nat) :
    l.foldl (fun r q => r + (if P q then (1 : α) else 0)) (Arith.ofNat n)
      = Arith.ofNat (n + l.countP P) := by
  induction l generalizing n with
  | nil => rfl
  | cons q t ih =>
    rw [List.foldl_cons, List.countP_cons]
    cases hq : P q
    · simp only [Bool.false_eq_true, if_false, hc.add_zero, Nat.add_zero]; exact ih n
    · simp only [if_true, ← hc.ofNat_succ]
      rw [ih (n + 1)]; congr 1; omega

theorem count_fold2 (hc : CountLaws α) (P : α → α → Bool) (x y : Array α) :
    fold2 (fun r a b => r + (if P a b then (1 : α) else 0)) x y 0 0
      = Arith.ofNat ((x.toList.zip y.toList).countP (fun p => P p.1 p.2)) := by
  have := count_foldl hc (fun p : α × α => P p.1 p.2) (x.toList.zip y.toList) 0
  rw [hc.ofNat_zero, Nat.zero_add] at this
  exact this

theorem count_foldl' (hc : CountLaws α) {γ : Type} (P : γ → Bool) (l : List γ) (n : Nat) :
    l.foldl (fun r q => if P q then r + (1 : α) else r) (Arith.ofNat n)
      = Arith.ofNat (n + l.countP P) := by
  induction l generalizing n with
  | nil => rfl
  | cons q t ih =>
    rw [List.foldl_cons, List.countP_cons]
    cases hq : P q
    · simp only [Bool.false_eq_true, if_false, Nat.add_zero]; exact ih n
    · simp only [if_true, ← hc.ofNat_succ]
      rw [ih (n + 1)]; congr 1; omega

theorem count_fold2' (hc : CountLaws α) (P : α → α → Bool) (x y : Array α) :
    fold2 (fun r a b => if P a b then r + (1 : α) else r) x y 0 0
      = Arith.ofNat ((x.toList.zip y.toList).countP (fun p => P p.1 p.2)) := by
  have := count_foldl' hc (fun p : α × α => P p.1 p.2) (x.toList.zip y.toList) 0
  rw [hc.ofNat_zero, Nat.zero_add] at this
  exact this

theorem squared_euclidean_loop0 (x y : Array α) (h : x.size = y.size) :
    ∀ (fuel k : Nat), k ≤ x.size → x.size - k + 1 ≤ fuel → ∀ (r : α),
      squared_euclidean.loop0 x y (x.size : Int) fuel r (k : Int)
        = some (.next (fold2 (fun r a b => r + sqDiff a b) x y k r, (x.size : Int))) := by
  metric_loop squared_euclidean.loop0 with x h

theorem squared_euclidean_refines (x y : Array α) (h : x.size = y.size) (fuel : Nat)
    (hf : x.size + 1 ≤ fuel) :
    GenMetric.squared_euclidean fuel x y = some (Metrics.squaredEuclidean x.toList y.toList) := by
  have L := squared_euclidean_loop0 x y h fuel 0 (by omega) (by omega)
  rw [e0] at L
  simp only [GenMetric.squared_euclidean, L, Option.bind_eq_bind, Option.bind_some, Option.pure_def]
  first | rfl | (simp only [Metrics.squaredEuclidean, some_ite]; rfl)

theorem manhattan_loop0 (x y : Array α) (h : x.size = y.size) :
    ∀ (fuel k : Nat), k ≤ x.size → x.size - k + 1 ≤ fuel → ∀ (r : α),
      manhattan.loop0 x y (x.size : Int) fuel r (k : Int)
        = some (.next (fold2 (fun r a b => r + Arith.abs (a - b)) x y k r, (x.size : Int))) := by
  metric_loop manhattan.loop0 with x h

theorem manhattan_refines (x y : Array α) (h : x.size = y.size) (fuel : Nat)
    (hf : x.size + 1 ≤ fuel) :
    GenMetric.manhattan fuel x y = some (Metrics.manhattan x.toList y.toList) := by
  have L := manhattan_loop0 x y h fuel 0 (by omega) (by omega)
  rw [e0] at L
  simp only [GenMetric.manhattan, L, Option.bind_eq_bind, Option.bind_some, Option.pure_def]
  first | rfl | (simp only [Metrics.manhattan, some_ite]; rfl)

theorem chebyshev_loop0 (x y : Array α) (h : x.size = y.size) :
    ∀ (fuel k : Nat), k ≤ x.size → x.size - k + 1 ≤ fuel → ∀ (r : α),
      chebyshev.loop0 x y (x.size : Int) fuel r (k : Int)
        = some (.next (fold2 (fun r a b => Arith.max r (Arith.abs (a - b))) x y k r, (x.size : Int))) := by
  metric_loop chebyshev.loop0 with x h

theorem chebyshev_refines (x y : Array α) (h : x.size = y.size) (fuel : Nat)
    (hf : x.size + 1 ≤ fuel) :
    GenMetric.chebyshev fuel x y = some (Metrics.chebyshev x.toList y.toList) := by
  have L := chebyshev_loop0 x y h fuel 0 (by omega) (by omega)
  rw [e0] at L
  simp only [GenMetric.chebyshev, L, Option.bind_eq_bind, Option.bind_some, Option.pure_def]
  first | rfl | (simp only [Metrics.chebyshev, some_ite]; rfl)

theorem minkowski_loop0 (x y : Array α) (p : α) (h : x.size = y.size) :
    ∀ (fuel k : Nat), k ≤ x.size → x.size - k + 1 ≤ fuel → ∀ (r : α),
      minkowski.loop0 x y p (x.size : Int) fuel r (k : Int)
        = some (.next (fold2 (fun r a b => r + Arith.pow (Arith.abs (a - b)) p) x y k r, (x.size : Int))) := by
  metric_loop minkowski.loop0 with x h

theorem minkowski_refines (x y : Array α) (p : α) (h : x.size = y.size) (fuel : Nat)
    (hf : x.size + 1 ≤ fuel) :
    GenMetric.minkowski fuel x y p = some (Metrics.minkowski x.toList y.toList p) := by
  have L := minkowski_loop0 x y p h fuel 0 (by omega) (by omega)
  rw [e0] at L
  simp only [GenMetric.minkowski, L, Option.bind_eq_bind, Option.bind_some, Option.pure_def]
  first | rfl | (simp only [Metrics.minkowski, some_ite]; rfl)

theorem standardised_euclidean_loop0 (x y : Array α) (sigma : Array α) (h : x.size = y.size) (hs : x.size = sigma.size) :
    ∀ (fuel k : Nat), k ≤ x.size → x.size - k + 1 ≤ fuel → ∀ (r : α),
      standardised_euclidean.loop0 x y sigma (x.size : Int) fuel r (k : Int)
        = some (.next (fold3 (fun r a b s => r + ((a - b) * (a - b)) / s) x y sigma k r, (x.size : Int))) := by
  metric_loop standardised_euclidean.loop0 with x h hs

theorem weighted_minkowski_loop0 (x y : Array α) (w : Array α) (p : α) (h : x.size = y.size) (hs : x.size = w.size) :
    ∀ (fuel k : Nat), k ≤ x.size → x.size - k + 1 ≤ fuel → ∀ (r : α),
      weighted_minkowski.loop0 x y w p (x.size : Int) fuel r (k : Int)
        = some (.next (fold3 (fun r a b s => r + s * Arith.pow (Arith.abs (a - b)) p) x y w k r, (x.size : Int))) := by
  metric_loop weighted_minkowski.loop0 with x h hs

theorem alternative_cosine_loop0 (x y : Array α) (h : x.size = y.size) :
    ∀ (fuel k : Nat), k ≤ x.size → x.size - k + 1 ≤ fuel → ∀ (r nx ny : α),
      alternative_cosine.loop0 x y (x.size : Int) fuel r nx ny (k : Int)
        = some (.next (fold2 (fun r a b => r + a * b) x y k r,
            fold1 (fun r a => r + a * a) x k nx,
            fold1 (fun r a => r + a * a) y k ny, (x.size : Int))) := by
  metric_loop alternative_cosine.loop0 with x h

theorem alternative_cosine_refines (x y : Array α) (h : x.size = y.size) (fuel : Nat)
    (hf : x.size + 1 ≤ fuel) :
    GenMetric.alternative_cosine fuel x y = some (Metrics.alternativeCosine x.toList y.toList) := by
  have L := alternative_cosine_loop0 x y h fuel 0 (by omega) (by omega)
  rw [e0] at L
  simp only [GenMetric.alternative_cosine, L, Option.bind_eq_bind, Option.bind_some, Option.pure_def]
  first | rfl | (simp only [Metrics.alternativeCosine, some_ite]; rfl)

theorem true_angular_loop0 (x y : Array α) (h : x.size = y.size) :
    ∀ (fuel k : Nat), k ≤ x.size → x.size - k + 1 ≤ fuel → ∀ (r nx ny : α),
      true_angular.loop0 x y (x.size : Int) fuel r nx ny (k : Int)
        = some (.next (fold2 (fun r a b => r + a * b) x y k r,
            fold1 (fun r a => r + a * a) x k nx,
            fold1 (fun r a => r + a * a) y k ny, (x.size : Int))) := by
  metric_loop true_angular.loop0 with x h

theorem true_angular_refines (x y : Array α) (h : x.size = y.size) (fuel : Nat)
    (hf : x.size + 1 ≤ fuel) :
    GenMetric.true_angular fuel x y = some (Metrics.trueAngular x.toList y.toList) := by
  have L := true_angular_loop0 x y h fuel 0 (by omega) (by omega)
  rw [e0] at L
  simp only [GenMetric.true_angular, L, Option.bind_eq_bind, Option.bind_some, Option.pure_def]
  first | rfl | (simp only [Metrics.trueAngular, some_ite]; rfl)

theorem dot_loop0 (x y : Array α) (h : x.size = y.size) :
    ∀ (fuel k : Nat), k ≤ x.size → x.size - k + 1 ≤ fuel → ∀ (r : α),
      dot.loop0 x y (x.size : Int) fuel r (k : Int)
        = some (.next (fold2 (fun r a b => r + a * b) x y k r, (x.size : Int))) := by
  metric_loop dot.loop0 with x h

theorem dot_refines (x y : Array α) (h : x.size = y.size) (fuel : Nat)
    (hf : x.size + 1 ≤ fuel) :
    GenMetric.dot fuel x y = some (Metrics.dot x.toList y.toList) := by
  have L := dot_loop0 x y h fuel 0 (by omega) (by omega)
  rw [e0] at L
  simp only [GenMetric.dot, L, Option.bind_eq_bind, Option.bind_some, Option.pure_def]
  first | rfl | (simp only [Metrics.dot, some_ite]; rfl)

theorem alternative_dot_loop0 (x y : Array α) (h : x.size = y.size) :
    ∀ (fuel k : Nat), k ≤ x.size → x.size - k + 1 ≤ fuel → ∀ (r : α),
      alternative_dot.loop0 x y (x.size : Int) fuel r (k : Int)
        = some (.next (fold2 (fun r a b => r + a * b) x y k r, (x.size : Int))) := by
  metric_loop alternative_dot.loop0 with x h

theorem alternative_dot_refines (x y : Array α) (h : x.size = y.size) (fuel : Nat)
    (hf : x.size + 1 ≤ fuel) :
    GenMetric.alternative_dot fuel x y = some (Metrics.alternativeDot x.toList y.toList) := by
  have L := alternative_dot_loop0 x y h fuel 0 (by omega) (by omega)
  rw [e0] at L
  simp only [GenMetric.alternative_dot, L, Option.bind_eq_bind, Option.bind_some, Option.pure_def]
  first | rfl | (simp only [Metrics.alternativeDot, some_ite]; rfl)

theorem hellinger_loop0 (x y : Array α) (h : x.size = y.size) :
    ∀ (fuel k : Nat), k ≤ x.size → x.size - k + 1 ≤ fuel → ∀ (r lx ly : α),
      hellinger.loop0 x y (x.size : Int) fuel r lx ly (k : Int)
        = some (.next (fold2 (fun r a b => r + Arith.sqrt (a * b)) x y k r,
            fold1 (fun r a => r + a) x k lx,
            fold1 (fun r a => r + a) y k ly, (x.size : Int))) := by
  metric_loop hellinger.loop0 with x h

theorem hellinger_refines (x y : Array α) (h : x.size = y.size) (fuel : Nat)
    (hf : x.size + 1 ≤ fuel) :
    GenMetric.hellinger fuel x y = some (Metrics.hellinger x.toList y.toList) := by
  have L := hellinger_loop0 x y h fuel 0 (by omega) (by omega)
  rw [e0] at L
  simp only [GenMetric.hellinger, L, Option.bind_eq_bind, Option.bind_some, Option.pure_def]
  first | rfl | (simp only [Metrics.hellinger, some_ite]; rfl)

theorem alternative_hellinger_loop0 (x y : Array α) (h : x.size = y.size) :
    ∀ (fuel k : Nat), k ≤ x.size → x.size - k + 1 ≤ fuel → ∀ (r lx ly : α),
      alternative_hellinger.loop0 x y (x.size : Int) fuel r lx ly (k : Int)
        = some (.next (fold2 (fun r a b => r + Arith.sqrt (a * b)) x y k r,
            fold1 (fun r a => r + a) x k lx,
            fold1 (fun r a => r + a) y k ly, (x.size : Int))) := by
  metric_loop alternative_hellinger.loop0 with x h

theorem alternative_hellinger_refines (x y : Array α) (h : x.size = y.size) (fuel : Nat)
    (hf : x.size + 1 ≤ fuel) :
    GenMetric.alternative_hellinger fuel x y = some (Metrics.alternativeHellinger x.toList y.toList) := by
  have L := alternative_hellinger_loop0 x y h fuel 0 (by omega) (by omega)
  rw [e0] at L
  simp only [GenMetric.alternative_hellinger, L, Option.bind_eq_bind, Option.bind_some, Option.pure_def]
  first | rfl | (simp only [Metrics.alternativeHellinger, some_ite]; rfl)

theorem canberra_loop0 (x y : Array α) (h : x.size = y.size) :
    ∀ (fuel k : Nat), k ≤ x.size → x.size - k + 1 ≤ fuel → ∀ (r : α),
      canberra.loop0 x y (x.size : Int) fuel r (k : Int)
        = some (.next (fold2 (fun r a b => if 0 < Arith.abs a + Arith.abs b then r + Arith.abs (a - b) / (Arith.abs a + Arith.abs b) else r) x y k r, (x.size : Int))) := by
  metric_loop canberra.loop0 with x h

theorem canberra_refines (x y : Array α) (h : x.size = y.size) (fuel : Nat)
    (hf : x.size + 1 ≤ fuel) :
    GenMetric.canberra fuel x y = some (Metrics.canberra x.toList y.toList) := by
  have L := canberra_loop0 x y h fuel 0 (by omega) (by omega)
  rw [e0] at L
  simp only [GenMetric.canberra, L, Option.bind_eq_bind, Option.bind_some, Option.pure_def]
  first | rfl | (simp only [Metrics.canberra, some_ite]; rfl)

theorem bray_curtis_loop0 (x y : Array α) (h : x.size = y.size) :
    ∀ (fuel k : Nat), k ≤ x.size → x.size - k + 1 ≤ fuel → ∀ (n d : α),
      bray_curtis.loop0 x y (x.size : Int) fuel n d (k : Int)
        = some (.next (fold2 (fun r a b => r + Arith.abs (a - b)) x y k n,
            fold2 (fun r a b => r + Arith.abs (a + b)) x y k d, (x.size : Int))) := by
  metric_loop bray_curtis.loop0 with x h

theorem bray_curtis_refines (x y : Array α) (h : x.size = y.size) (fuel : Nat)
    (hf : x.size + 1 ≤ fuel) :
    GenMetric.bray_curtis fuel x y = some (Metrics.brayCurtis x.toList y.toList) := by
  have L := bray_curtis_loop0 x y h fuel 0 (by omega) (by omega)
  rw [e0] at L
  simp only [GenMetric.bray_curtis, L, Option.bind_eq_bind, Option.bind_some, Option.pure_def]
  first | rfl | (simp only [Metrics.brayCurtis, some_ite]; rfl)

theorem jaccard_loop0 (x y : Array α) (h : x.size = y.size) :
    ∀ (fuel k : Nat), k ≤ x.size → x.size - k + 1 ≤ fuel → ∀ (nz ne : α),
      jaccard.loop0 x y (x.size : Int) fuel nz ne (k : Int)
        = some (.next (fold2 (fun r a b => r + (if (Metrics.isTrue a || Metrics.isTrue b) then 1 else 0)) x y k nz,
            fold2 (fun r a b => r + (if (Metrics.isTrue a && Metrics.isTrue b) then 1 else 0)) x y k ne, (x.size : Int))) := by
  metric_loop jaccard.loop0 with x h

theorem jaccard_refines (hc : CountLaws α) (x y : Array α) (h : x.size = y.size) (fuel : Nat)
    (hf : x.size + 1 ≤ fuel) :
    GenMetric.jaccard fuel x y = some (Metrics.jaccard x.toList y.toList) := by
  have L := jaccard_loop0 x y h fuel 0 (by omega) (by omega)
  rw [e0] at L
  simp only [GenMetric.jaccard, L, Option.bind_eq_bind, Option.bind_some, Option.pure_def]
  simp only [Metrics.jaccard, jaccardOfCounts, numNonZero, numTrueTrue, some_ite]
  simp only [count_fold2 hc, Array.length_toList]
  try (first | rfl | exact ite_some_eq _ _ _ | (repeat (first | rfl | apply ite_some_congr)))

theorem alternative_jaccard_loop0 (x y : Array α) (h : x.size = y.size) :
    ∀ (fuel k : Nat), k ≤ x.size → x.size - k + 1 ≤ fuel → ∀ (nz ne : α),
      alternative_jaccard.loop0 x y (x.size : Int) fuel nz ne (k : Int)
        = some (.next (fold2 (fun r a b => r + (if (Metrics.isTrue a || Metrics.isTrue b) then 1 else 0)) x y k nz,
            fold2 (fun r a b => r + (if (Metrics.isTrue a && Metrics.isTrue b) then 1 else 0)) x y k ne, (x.size : Int))) := by
  metric_loop alternative_jaccard.loop0 with x h

theorem alternative_jaccard_refines (hc : CountLaws α) (x y : Array α) (h : x.size = y.size) (fuel : Nat)
    (hf : x.size + 1 ≤ fuel) :
    GenMetric.alternative_jaccard fuel x y = some (Metrics.alternativeJaccard x.toList y.toList) := by
  have L := alternative_jaccard_loop0 x y h fuel 0 (by omega) (by omega)
  rw [e0] at L
  simp only [GenMetric.alternative_jaccard, L, Option.bind_eq_bind, Option.bind_some, Option.pure_def]
  simp only [Metrics.alternativeJaccard, alternativeJaccardOfCounts, numNonZero, numTrueTrue, some_ite]
  simp only [count_fold2 hc, Array.length_toList]
  try (first | rfl | exact ite_some_eq _ _ _ | (repeat (first | rfl | apply ite_some_congr)))

theorem matching_loop0 (x y : Array α) (h : x.size = y.size) :
    ∀ (fuel k : Nat), k ≤ x.size → x.size - k + 1 ≤ fuel → ∀ (nn : α),
      matching.loop0 x y (x.size : Int) fuel nn (k : Int)
        = some (.next (fold2 (fun r a b => r + (if (Metrics.isTrue a != Metrics.isTrue b) then 1 else 0)) x y k nn, (x.size : Int))) := by
  metric_loop matching.loop0 with x h

theorem matching_refines (hc : CountLaws α) (x y : Array α) (h : x.size = y.size) (fuel : Nat)
    (hf : x.size + 1 ≤ fuel) :
    GenMetric.matching fuel x y = some (Metrics.matching x.toList y.toList) := by
  have L := matching_loop0 x y h fuel 0 (by omega) (by omega)
  rw [e0] at L
  simp only [GenMetric.matching, L, Option.bind_eq_bind, Option.bind_some, Option.pure_def]
  simp only [Metrics.matching, matchingOfCounts, numNotEqual, some_ite]
  simp only [count_fold2 hc, Array.length_toList]
  try (first | rfl | exact ite_some_eq _ _ _ | (repeat (first | rfl | apply ite_some_congr)))

theorem dice_loop0 (x y : Array α) (h : x.size = y.size) :
    ∀ (fuel k : Nat), k ≤ x.size → x.size - k + 1 ≤ fuel → ∀ (tt nn : α),
      dice.loop0 x y (x.size : Int) fuel tt nn (k : Int)
        = some (.next (fold2 (fun r a b => r + (if (Metrics.isTrue a && Metrics.isTrue b) then 1 else 0)) x y k tt,
            fold2 (fun r a b => r + (if (Metrics.isTrue a != Metrics.isTrue b) then 1 else 0)) x y k nn, (x.size : Int))) := by
  metric_loop dice.loop0 with x h

theorem dice_refines (hc : CountLaws α) (x y : Array α) (h : x.size = y.size) (fuel : Nat)
    (hf : x.size + 1 ≤ fuel) :
    GenMetric.dice fuel x y = some (Metrics.dice x.toList y.toList) := by
  have L := dice_loop0 x y h fuel 0 (by omega) (by omega)
  rw [e0] at L
  simp only [GenMetric.dice, L, Option.bind_eq_bind, Option.bind_some, Option.pure_def]
  simp only [Metrics.dice, diceOfCounts, numTrueTrue, numNotEqual, some_ite]
  simp only [count_fold2 hc, Array.length_toList]
  try (first | rfl | exact ite_some_eq _ _ _ | (repeat (first | rfl | apply ite_some_congr)))

theorem kulsinski_loop0 (x y : Array α) (h : x.size = y.size) :
    ∀ (fuel k : Nat), k ≤ x.size → x.size - k + 1 ≤ fuel → ∀ (tt nn : α),
      kulsinski.loop0 x y (x.size : Int) fuel tt nn (k : Int)
        = some (.next (fold2 (fun r a b => r + (if (Metrics.isTrue a && Metrics.isTrue b) then 1 else 0)) x y k tt,
            fold2 (fun r a b => r + (if (Metrics.isTrue a != Metrics.isTrue b) then 1 else 0)) x y k nn, (x.size : Int))) := by
  metric_loop kulsinski.loop0 with x h

theorem kulsinski_refines (hc : CountLaws α) (x y : Array α) (h : x.size = y.size) (fuel : Nat)
    (hf : x.size + 1 ≤ fuel) :
    GenMetric.kulsinski fuel x y = some (Metrics.kulsinski x.toList y.toList) := by
  have L := kulsinski_loop0 x y h fuel 0 (by omega) (by omega)
  rw [e0] at L
  simp only [GenMetric.kulsinski, L, Option.bind_eq_bind, Option.bind_some, Option.pure_def]
  simp only [Metrics.kulsinski, kulsinskiOfCounts, numTrueTrue, numNotEqual, some_ite]
  simp only [count_fold2 hc, Array.length_toList]
  try (first | rfl | exact ite_some_eq _ _ _ | (repeat (first | rfl | apply ite_some_congr)))

theorem rogers_tanimoto_loop0 (x y : Array α) (h : x.size = y.size) :
    ∀ (fuel k : Nat), k ≤ x.size → x.size - k + 1 ≤ fuel → ∀ (nn : α),
      rogers_tanimoto.loop0 x y (x.size : Int) fuel nn (k : Int)
        = some (.next (fold2 (fun r a b => r + (if (Metrics.isTrue a != Metrics.isTrue b) then 1 else 0)) x y k nn, (x.size : Int))) := by
  metric_loop rogers_tanimoto.loop0 with x h

theorem rogers_tanimoto_refines (hc : CountLaws α) (x y : Array α) (h : x.size = y.size) (fuel : Nat)
    (hf : x.size + 1 ≤ fuel) :
    GenMetric.rogers_tanimoto fuel x y = some (Metrics.rogersTanimoto x.toList y.toList) := by
  have L := rogers_tanimoto_loop0 x y h fuel 0 (by omega) (by omega)
  rw [e0] at L
  simp only [GenMetric.rogers_tanimoto, L, Option.bind_eq_bind, Option.bind_some, Option.pure_def]
  simp only [Metrics.rogersTanimoto, rogersTanimotoOfCounts, numNotEqual, some_ite]
  simp only [count_fold2 hc, Array.length_toList]
  try (first | rfl | exact ite_some_eq _ _ _ | (repeat (first | rfl | apply ite_some_congr)))

theorem sokal_michener_loop0 (x y : Array α) (h : x.size = y.size) :
    ∀ (fuel k : Nat), k ≤ x.size → x.size - k + 1 ≤ fuel → ∀ (nn : α),
      sokal_michener.loop0 x y (x.size : Int) fuel nn (k : Int)
        = some (.next (fold2 (fun r a b => r + (if (Metrics.isTrue a != Metrics.isTrue b) then 1 else 0)) x y k nn, (x.size : Int))) := by
  metric_loop sokal_michener.loop0 with x h

theorem sokal_michener_refines (hc : CountLaws α) (x y : Array α) (h : x.size = y.size) (fuel : Nat)
    (hf : x.size + 1 ≤ fuel) :
    GenMetric.sokal_michener fuel x y = some (Metrics.rogersTanimoto x.toList y.toList) := by
  have L := sokal_michener_loop0 x y h fuel 0 (by omega) (by omega)
  rw [e0] at L
  simp only [GenMetric.sokal_michener, L, Option.bind_eq_bind, Option.bind_some, Option.pure_def]
  simp only [Metrics.rogersTanimoto, rogersTanimotoOfCounts, numNotEqual, some_ite]
  simp only [count_fold2 hc, Array.length_toList]
  try (first | rfl | exact ite_some_eq _ _ _ | (repeat (first | rfl | apply ite_some_congr)))

theorem sokal_sneath_loop0 (x y : Array α) (h : x.size = y.size) :
    ∀ (fuel k : Nat), k ≤ x.size → x.size - k + 1 ≤ fuel → ∀ (tt nn : α),
      sokal_sneath.loop0 x y (x.size : Int) fuel tt nn (k : Int)
        = some (.next (fold2 (fun r a b => r + (if (Metrics.isTrue a && Metrics.isTrue b) then 1 else 0)) x y k tt,
            fold2 (fun r a b => r + (if (Metrics.isTrue a != Metrics.isTrue b) then 1 else 0)) x y k nn, (x.size : Int))) := by
  metric_loop sokal_sneath.loop0 with x h

theorem sokal_sneath_refines (hc : CountLaws α) (x y : Array α) (h : x.size = y.size) (fuel : Nat)
    (hf : x.size + 1 ≤ fuel) :
    GenMetric.sokal_sneath fuel x y = some (Metrics.sokalSneath x.toList y.toList) := by
  have L := sokal_sneath_loop0 x y h fuel 0 (by omega) (by omega)
  rw [e0] at L
  simp only [GenMetric.sokal_sneath, L, Option.bind_eq_bind, Option.bind_some, Option.pure_def]
  simp only [Metrics.sokalSneath, sokalSneathOfCounts, numTrueTrue, numNotEqual, some_ite]
  simp only [count_fold2 hc, Array.length_toList]
  try (first | rfl | exact ite_some_eq _ _ _ | (repeat (first | rfl | apply ite_some_congr)))

theorem russellrao_loop0 (x y : Array α) (h : x.size = y.size) :
    ∀ (fuel k : Nat), k ≤ x.size → x.size - k + 1 ≤ fuel → ∀ (tt : α),
      russellrao.loop0 x y (x.size : Int) fuel tt (k : Int)
        = some (.next (fold2 (fun r a b => r + (if (Metrics.isTrue a && Metrics.isTrue b) then 1 else 0)) x y k tt, (x.size : Int))) := by
  metric_loop russellrao.loop0 with x h

theorem russellrao_refines (hc : CountLaws α) (x y : Array α) (h : x.size = y.size) (fuel : Nat)
    (hf : x.size + 1 ≤ fuel) :
    GenMetric.russellrao fuel x y = some (Metrics.russellrao x.toList y.toList) := by
  have L := russellrao_loop0 x y h fuel 0 (by omega) (by omega)
  rw [e0] at L
  simp only [GenMetric.russellrao, L, Option.bind_eq_bind, Option.bind_some, Option.pure_def]
  simp only [Metrics.russellrao, russellraoOfCounts, numTrueTrue, countNZ, some_ite]
  simp only [count_fold2 hc, Array.length_toList]
  try (first | rfl | exact ite_some_eq _ _ _ | (repeat (first | rfl | apply ite_some_congr)))

theorem yule_loop0 (x y : Array α) (h : x.size = y.size) :
    ∀ (fuel k : Nat), k ≤ x.size → x.size - k + 1 ≤ fuel → ∀ (tt tf ft : α),
      yule.loop0 x y (x.size : Int) fuel tt tf ft (k : Int)
        = some (.next (fold2 (fun r a b => r + (if (Metrics.isTrue a && Metrics.isTrue b) then 1 else 0)) x y k tt,
            fold2 (fun r a b => r + (if (Metrics.isTrue a && !Metrics.isTrue b) then 1 else 0)) x y k tf,
            fold2 (fun r a b => r + (if (!Metrics.isTrue a && Metrics.isTrue b) then 1 else 0)) x y k ft, (x.size : Int))) := by
  metric_loop yule.loop0 with x h

theorem yule_refines (hc : CountLaws α) (x y : Array α) (h : x.size = y.size) (fuel : Nat)
    (hf : x.size + 1 ≤ fuel) :
    GenMetric.yule fuel x y = some (Metrics.yule x.toList y.toList) := by
  have L := yule_loop0 x y h fuel 0 (by omega) (by omega)
  rw [e0] at L
  simp only [GenMetric.yule, L, Option.bind_eq_bind, Option.bind_some, Option.pure_def]
  simp only [Metrics.yule, yuleOfCounts, numTrueTrue, numTrueFalse, numFalseTrue, some_ite]
  simp only [count_fold2 hc, Array.length_toList]
  try (first | rfl | exact ite_some_eq _ _ _ | (repeat (first | rfl | apply ite_some_congr)))

/-! ### three arrays -/

theorem standardised_euclidean_refines (x y sigma : Array α) (h : x.size = y.size)
    (hs : x.size = sigma.size) (fuel : Nat) (hf : x.size + 1 ≤ fuel) :
    GenMetric.standardised_euclidean fuel x y sigma
      = some (Metrics.standardisedEuclidean x.toList y.toList sigma.toList) := by
  have L := standardised_euclidean_loop0 x y sigma h hs fuel 0 (by omega) (by omega)
  rw [e0] at L
  simp only [GenMetric.standardised_euclidean, L, Option.bind_eq_bind, Option.bind_some, Option.pure_def]
  rfl

theorem weighted_minkowski_refines (x y w : Array α) (p : α) (h : x.size = y.size)
    (hs : x.size = w.size) (fuel : Nat) (hf : x.size + 1 ≤ fuel) :
    GenMetric.weighted_minkowski fuel x y w p
      = some (Metrics.weightedMinkowski x.toList y.toList w.toList p) := by
  have L := weighted_minkowski_loop0 x y w p h hs fuel 0 (by omega) (by omega)
  rw [e0] at L
  simp only [GenMetric.weighted_minkowski, L, Option.bind_eq_bind, Option.bind_some, Option.pure_def]
  rfl

/-! ### hamming -/

theorem hamming_loop0 (x y : Array α) (h : x.size = y.size) :
    ∀ (fuel k : Nat), k ≤ x.size → x.size - k + 1 ≤ fuel → ∀ (r : α),
      hamming.loop0 x y (x.size : Int) fuel r (k : Int)
        = some (.next (fold2 (fun r a b => if (!(a == b)) then r + 1 else r) x y k r, (x.size : Int))) := by
  metric_loop hamming.loop0 with x h

theorem hamming_refines (hc : CountLaws α) (x y : Array α) (h : x.size = y.size) (fuel : Nat)
    (hf : x.size + 1 ≤ fuel) :
    GenMetric.hamming fuel x y = some (Metrics.hamming x.toList y.toList) := by
  have L := hamming_loop0 x y h fuel 0 (by omega) (by omega)
  rw [e0] at L
  simp only [GenMetric.hamming, L, Option.bind_eq_bind, Option.bind_some, Option.pure_def]
  simp only [count_fold2' hc, Array.length_toList, Metrics.hamming, hammingOfCounts, numDiffer]

/-! ### correlation: two loops -/

theorem correlation_loop0 (x y : Array α) (h : x.size = y.size) :
    ∀ (fuel k : Nat), k ≤ x.size → x.size - k + 1 ≤ fuel → ∀ (mx my : α),
      correlation.loop0 x y (x.size : Int) fuel mx my (k : Int)
        = some (.next (fold1 (fun r a => r + a) x k mx, fold1 (fun r a => r + a) y k my,
            (x.size : Int))) := by
  metric_loop correlation.loop0 with x h

theorem correlation_loop1 (x y : Array α) (mu_x mu_y : α) (h : x.size = y.size) :
    ∀ (fuel k : Nat), k ≤ x.size → x.size - k + 1 ≤ fuel → ∀ (nx ny d : α),
      correlation.loop1 x y mu_x mu_y (x.size : Int) fuel nx ny d (k : Int)
        = some (.next (fold1 (fun r a => r + (a - mu_x) * (a - mu_x)) x k nx,
            fold1 (fun r a => r + (a - mu_y) * (a - mu_y)) y k ny,
            fold2 (fun r a b => r + (a - mu_x) * (b - mu_y)) x y k d, (x.size : Int))) := by
  metric_loop correlation.loop1 with x h

theorem correlation_refines (x y : Array α) (h : x.size = y.size) (fuel : Nat)
    (hf : x.size + 1 ≤ fuel) :
    GenMetric.correlation fuel x y = some (Metrics.correlation x.toList y.toList) := by
  have L0 := correlation_loop0 x y h fuel 0 (by omega) (by omega)
  have L1 := fun mx my => correlation_loop1 x y mx my h fuel 0 (by omega) (by omega)
  rw [e0] at L0
  simp only [e0] at L1
  simp only [GenMetric.correlation, L0, L1, Option.bind_eq_bind, Option.bind_some, Option.pure_def]
  simp only [Metrics.correlation, some_ite, Array.length_toList]
  rfl

/-! ### the scalar corrections (no loop, no load: any fuel) -/

theorem correct_alternative_cosine_refines (fuel : Nat) (d : α) :
    GenMetric.correct_alternative_cosine fuel d = some (Metrics.correctAlternativeCosine d) := rfl

theorem true_angular_from_alt_cosine_refines (fuel : Nat) (d : α) :
    GenMetric.true_angular_from_alt_cosine fuel d = some (Metrics.trueAngularFromAltCosine d) := rfl

theorem correct_alternative_hellinger_refines (fuel : Nat) (d : α) :
    GenMetric.correct_alternative_hellinger fuel d = some (Metrics.correctAlternativeHellinger d) := rfl

theorem correct_alternative_jaccard_refines (fuel : Nat) (v : α) :
    GenMetric.correct_alternative_jaccard fuel v = some (Metrics.correctAlternativeJaccard v) := rfl

/-! ### mahalanobis: a local array filled by a first loop, then a nested loop over the 2-D `vinv` -/
section Mahalanobis

theorem wr_lt {β : Type} (a : Array β) (k : Nat) (v : β) (h : k < a.size) :
    wr a (k : Int) v = some (a.setIfInBounds k v) := by
  simp [wr, h]

/-- `diff = x - y` as the array the first loop builds -/
def diffArr (x y : Array α) : Array α := (List.zipWith (fun a b => a - b) x.toList y.toList).toArray

theorem diffArr_size (x y : Array α) (h : x.size = y.size) : (diffArr x y).size = x.size := by
  simp [diffArr, h]

theorem diffArr_get (x y : Array α) (h : x.size = y.size) (k : Nat) (hk : k < x.size) :
    (diffArr x y)[k]? = some (x[k] - y[k]'(h ▸ hk)) := by
  simp [diffArr, List.getElem?_zipWith, hk, (h ▸ hk : k < y.size)]

/-- first loop: every cell `< k` already holds `x[j] - y[j]`; afterwards the whole array does -/
theorem mahalanobis_loop0 (x y : Array α) (h : x.size = y.size) :
    ∀ (fuel k : Nat), k ≤ x.size → x.size - k + 1 ≤ fuel → ∀ (d : Array α), d.size = x.size →
      (∀ j, j < k → d[j]? = (diffArr x y)[j]?) →
      mahalanobis.loop0 x y (x.size : Int) fuel d (k : Int)
        = some (.next (diffArr x y, (x.size : Int))) := by
  intro fuel
  induction fuel with
  | zero => intro k hk hf; omega
  | succ fuel ih =>
    intro k hk hf d hd hpre
    rw [mahalanobis.loop0]
    by_cases c : k < x.size
    · have c' : (k : Int) < ((x.size : Nat) : Int) := Int.ofNat_lt.2 c
      have ek : (k : Int) + 1 = ((k + 1 : Nat) : Int) := by omega
      simp only [c', if_true, rd_lt x k c, rd_lt y k (h ▸ c), Option.bind_eq_bind, Option.bind_some, ek,
        wr_lt d k _ (hd ▸ c)]
      refine ih (k + 1) (by omega) (by omega) _ (by simpa using hd) ?_
      intro j hj
      by_cases e : j = k
      · subst e
        rw [diffArr_get x y h j c]
        simp [hd ▸ c]
      · have : j < k := by omega
        rw [← hpre j this]
        simp [Array.getElem?_setIfInBounds, Ne.symm e]
    · have c' : ¬ (k : Int) < ((x.size : Nat) : Int) := by omega
      have e : k = x.size := by omega
      subst e
      simp only [c', if_false, Option.pure_def]
      have : d = diffArr x y := by
        apply Array.ext (by rw [hd, diffArr_size x y h])
        intro j h1 h2
        have := hpre j (hd ▸ h1)
        simpa [h1, h2] using this
      rw [this]

/-- inner loop: the dot product of row `i` of `vinv` with `diff` -/
theorem mahalanobis_loop2 (vinv : Array (Array α)) (d : Array α) (i : Nat) (hi : i < vinv.size)
    (hr : vinv[i].size = d.size) :
    ∀ (fuel j : Nat), j ≤ d.size → d.size - j + 1 ≤ fuel → ∀ (t : α),
      mahalanobis.loop2 vinv d (i : Int) (d.size : Int) fuel t (j : Int)
        = some (.next (fold2 (fun r a b => r + a * b) vinv[i] d j t, (d.size : Int))) := by
  intro fuel
  induction fuel with
  | zero => intro j hj hf; omega
  | succ fuel ih =>
    intro j hj hf t
    rw [mahalanobis.loop2]
    by_cases c : j < d.size
    · have c' : (j : Int) < ((d.size : Nat) : Int) := Int.ofNat_lt.2 c
      have ej : (j : Int) + 1 = ((j + 1 : Nat) : Int) := by omega
      simp only [c', if_true, rd_lt vinv i hi, rd_lt vinv[i] j (hr ▸ c), rd_lt d j c, Option.bind_eq_bind,
        Option.bind_some, ej, fold2_lt _ _ _ j _ (hr ▸ c) c]
      exact ih (j + 1) (by omega) (by omega) _
    · have c' : ¬ (j : Int) < ((d.size : Nat) : Int) := by omega
      have e : j = d.size := by omega
      subst e
      simp only [c', if_false, Option.pure_def, fold2_ge _ _ _ _ _ (Nat.le_of_eq hr)]

/-- the outer loop of the model from row `k` on -/
def qfFrom (vinv : Array (Array α)) (d : Array α) (k : Nat) (r : α) : α :=
  (((vinv.toList.map Array.toList).drop k).zip (d.toList.drop k)).foldl
    (fun r p => r + dotProd p.1 d.toList * p.2) r

theorem qfFrom_lt (vinv : Array (Array α)) (d : Array α) (k : Nat) (r : α) (hv : k < vinv.size)
    (hd : k < d.size) :
    qfFrom vinv d k r = qfFrom vinv d (k + 1) (r + dotProd vinv[k].toList d.toList * d[k]) := by
  have e1 : (vinv.toList.map Array.toList).drop k
      = vinv[k].toList :: (vinv.toList.map Array.toList).drop (k + 1) := by
    rw [List.drop_eq_getElem_cons (by simpa using hv)]; simp
  simp only [qfFrom, e1, drop_cons d k hd, List.zip_cons_cons, List.foldl_cons]

theorem qfFrom_ge (vinv : Array (Array α)) (d : Array α) (k : Nat) (r : α) (hd : d.size ≤ k) :
    qfFrom vinv d k r = r := by
  have e : d.toList.drop k = [] := List.drop_eq_nil_of_le (by simp; exact hd)
  simp [qfFrom, e]

theorem mahalanobis_loop1 (x : Array α) (vinv : Array (Array α)) (d : Array α) (hd : d.size = x.size)
    (hv : vinv.size = x.size) (hr : ∀ i (hi : i < vinv.size), vinv[i].size = x.size) :
    ∀ (fuel k : Nat), k ≤ x.size → (x.size - k) + x.size + 2 ≤ fuel → ∀ (r : α),
      mahalanobis.loop1 x vinv d (x.size : Int) fuel r (k : Int)
        = some (.next (qfFrom vinv d k r, (x.size : Int))) := by
  intro fuel
  induction fuel with
  | zero => intro k hk hf; omega
  | succ fuel ih =>
    intro k hk hf r
    rw [mahalanobis.loop1]
    by_cases c : k < x.size
    · have c' : (k : Int) < ((x.size : Nat) : Int) := Int.ofNat_lt.2 c
      have ek : (k : Int) + 1 = ((k + 1 : Nat) : Int) := by omega
      have hi : k < vinv.size := hv ▸ c
      have L := mahalanobis_loop2 vinv d k hi (by rw [hr k hi, hd]) fuel 0 (by omega) (by omega) 0
      rw [e0, hd] at L
      simp only [c', if_true, L, rd_lt d k (hd ▸ c), Option.bind_eq_bind, Option.bind_some, ek,
        qfFrom_lt vinv d k r hi (hd ▸ c)]
      exact ih (k + 1) (by omega) (by omega) _
    · have c' : ¬ (k : Int) < ((x.size : Nat) : Int) := by omega
      have e : k = x.size := by omega
      subst e
      simp only [c', if_false, Option.pure_def, qfFrom_ge vinv d _ r (Nat.le_of_eq hd)]

/-- **`mahalanobis` (translated) = model**: `vinv` is `n × n` (`n = x.size = y.size`), fuel
`≥ 2n + 2` (the inner loop runs on the outer loop's remaining fuel); no out-of-bounds load or
store, every cell of the `np.empty` array is stored to before it is loaded. -/
theorem mahalanobis_refines (x y : Array α) (vinv : Array (Array α)) (h : x.size = y.size)
    (hv : vinv.size = x.size) (hr : ∀ i (hi : i < vinv.size), vinv[i].size = x.size) (fuel : Nat)
    (hf : 2 * x.size + 2 ≤ fuel) :
    GenMetric.mahalanobis fuel x y vinv
      = some (Metrics.mahalanobis x.toList y.toList (vinv.toList.map Array.toList)) := by
  have hz : ((x.size : Nat) : Int).toNat = x.size := by omega
  have L0 := mahalanobis_loop0 x y h fuel 0 (by omega) (by omega) (mkEmpty (x.size : Int))
    (by simp [mkEmpty]) (by intro j hj; omega)
  have L1 := mahalanobis_loop1 x vinv (diffArr x y) (diffArr_size x y h) hv hr fuel 0 (by omega)
    (by omega) 0
  rw [e0] at L0 L1
  simp only [GenMetric.mahalanobis, L0, L1, Option.bind_eq_bind, Option.bind_some, Option.pure_def]
  simp [Metrics.mahalanobis, quadForm, vecDiff, qfFrom, diffArr]

end Mahalanobis

/-! ### the two kernels that need `sin` / `cos` / `arcsin` -/
section TrigKernels
variable [Trig α]

theorem tsss_loop0 (x y : Array α) (h : x.size = y.size) :
    ∀ (fuel k : Nat), k ≤ x.size → x.size - k + 1 ≤ fuel → ∀ (de dc nx ny : α),
      tsss.loop0 x y (x.size : Int) fuel de dc nx ny (k : Int)
        = some (.next (fold2 (fun r a b => r + sqDiff a b) x y k de,
            fold2 (fun r a b => r + a * b) x y k dc,
            fold1 (fun r a => r + a * a) x k nx,
            fold1 (fun r a => r + a * a) y k ny, (x.size : Int))) := by
  metric_loop tsss.loop0 with x h

theorem tsss_refines (x y : Array α) (h : x.size = y.size) (fuel : Nat) (hf : x.size + 1 ≤ fuel) :
    GenMetric.tsss fuel x y = some (Metrics.tsss x.toList y.toList) := by
  have L := tsss_loop0 x y h fuel 0 (by omega) (by omega)
  rw [e0] at L
  simp only [GenMetric.tsss, L, Option.bind_eq_bind, Option.bind_some, Option.pure_def]
  rfl

/-- `haversine`: the `ValueError` for `x.shape[0] != 2` is `none` on both sides -/
theorem haversine_refines (x y : Array α) (h : x.size = y.size) (fuel : Nat) :
    GenMetric.haversine fuel x y = Metrics.haversine x.toList y.toList := by
  obtain ⟨xl⟩ := x
  obtain ⟨yl⟩ := y
  simp only [List.size_toArray] at h
  by_cases hx : xl.length = 2
  · obtain ⟨x0, x1, rfl⟩ := length_two hx
    obtain ⟨y0, y1, rfl⟩ := length_two (h ▸ hx)
    simp [GenMetric.haversine, rd, Metrics.haversine, haversineCore, haversineRadicand, half]
  · have hn : ((xl.length : Nat) : Int) ≠ 2 := by omega
    simp only [GenMetric.haversine, List.size_toArray, hn, ne_eq, not_false_eq_true, if_true]
    unfold Metrics.haversine
    split
    · simp at hx
    · rfl

end TrigKernels

end Kernels
end Pynn.GenMetricProofs
