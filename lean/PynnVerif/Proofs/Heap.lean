import PynnVerif.Model.Heap
import Mathlib.Order.Defs.LinearOrder

/-! # Lemmas about the heap kernels (hole sift, push, swap siftdown) -/
namespace Pynn
variable {P : Type} [LinearOrder P]

@[simp] theorem sift_size (a : Row P) (e : Entry P) (i : Nat) :
    (sift a e i).size = a.size := by
  fun_induction sift a e i <;> simp_all

theorem set_set_perm {α} (a : Array α) (i c : Nat) (e : α) (hi : i < a.size) (hc : c < a.size)
    (hne : i ≠ c) :
    ((a.setIfInBounds i a[c]).setIfInBounds c e).Perm (a.setIfInBounds i e) := by
  have h : ((a.setIfInBounds i a[c]).setIfInBounds c e)
      = ((a.setIfInBounds i e).swap i c (by simpa using hi) (by simpa using hc)) := by
    apply Array.ext
    · simp
    · intro k h1 h2
      simp only [Array.size_setIfInBounds] at h1
      grind
  rw [h]
  exact Array.swap_perm _ _

/-- The sift-down result is a permutation of "`a` with `e` written at the hole":
whole entries move, so a candidate stays paired with its own distance and flag. -/
theorem sift_perm (a : Row P) (e : Entry P) (i : Nat) (hi : i < a.size) :
    (sift a e i).Perm (a.setIfInBounds i e) := by
  fun_induction sift a e i
  case case1 a i h1 h2 h3 h4 ih =>
    exact (ih (by simp; omega)).trans (set_set_perm a i _ e hi h1 (by omega))
  case case2 => exact Array.Perm.refl _
  case case3 a i h1 h2 h3 h4 ih =>
    exact (ih (by simp; omega)).trans (set_set_perm a i _ e hi h2 (by omega))
  case case4 => exact Array.Perm.refl _
  case case5 a i h1 h2 h3 ih =>
    exact (ih (by simp; omega)).trans (set_set_perm a i _ e hi h1 (by omega))
  case case6 => exact Array.Perm.refl _
  case case7 => exact Array.Perm.refl _

/-- Max-heap property of a row in array layout. -/
def IsHeap (a : Row P) : Prop :=
  ∀ j (hj : j < a.size), 0 < j → a[j].prio ≤ (a[(j-1)/2]'(by omega)).prio

/-- Heap everywhere except at hole `i`, where `e` is to be placed. -/
structure HoleInv (a : Row P) (e : Entry P) (i : Nat) : Prop where
  away : ∀ j (hj : j < a.size), 0 < j → j ≠ i → (j-1)/2 ≠ i →
            a[j].prio ≤ (a[(j-1)/2]'(by omega)).prio
  par  : ∀ (_ : 0 < i) (hi : i < a.size), e.prio ≤ (a[(i-1)/2]'(by omega)).prio
  gp   : ∀ (_ : 0 < i) (hi : i < a.size) c (hc : c < a.size), (c-1)/2 = i → 0 < c →
            a[c].prio ≤ (a[(i-1)/2]'(by omega)).prio

theorem sift_heap (a : Row P) (e : Entry P) (i : Nat) (hi : i < a.size)
    (h : HoleInv a e i) : IsHeap (sift a e i) := by
  fun_induction sift a e i
  case case1 a i h1 h2 h3 h4 ih =>
    apply ih (by simp; omega)
    obtain ⟨aw, pr, gp⟩ := h
    refine ⟨?_, ?_, ?_⟩
    · intro j hj hj0 hne hne2
      simp only [Array.size_setIfInBounds] at hj
      have hpj : (j-1)/2 < a.size := by omega
      simp only [Array.getElem_setIfInBounds, hj, hpj]
      by_cases hji : j = i
      · subst hji
        have := gp
        grind
      · by_cases hpi : (j-1)/2 = i
        · grind
        · grind
    · intro h0 hi'
      simp only [Array.size_setIfInBounds] at hi'
      grind
    · intro h0 hi' c hc hcp hc0
      simp only [Array.size_setIfInBounds] at hi' hc
      grind
  case case2 a i h1 h2 h3 h4 =>
    obtain ⟨aw, pr, gp⟩ := h
    intro j hj hj0
    simp only [Array.size_setIfInBounds] at hj
    have hpj : (j-1)/2 < a.size := by omega
    simp only [Array.getElem_setIfInBounds, hj, hpj]
    by_cases hji : j = i
    · subst hji; grind
    · by_cases hpi : (j-1)/2 = i
      · have : j = 2*i+1 ∨ j = 2*i+2 := by omega
        grind
      · grind
  case case3 a i h1 h2 h3 h4 ih =>
    apply ih (by simp; omega)
    obtain ⟨aw, pr, gp⟩ := h
    refine ⟨?_, ?_, ?_⟩
    · intro j hj hj0 hne hne2
      simp only [Array.size_setIfInBounds] at hj
      have hpj : (j-1)/2 < a.size := by omega
      simp only [Array.getElem_setIfInBounds, hj, hpj]
      by_cases hji : j = i
      · subst hji
        have := gp
        grind
      · by_cases hpi : (j-1)/2 = i
        · grind
        · grind
    · intro h0 hi'
      simp only [Array.size_setIfInBounds] at hi'
      grind
    · intro h0 hi' c hc hcp hc0
      simp only [Array.size_setIfInBounds] at hi' hc
      grind
  case case4 a i h1 h2 h3 h4 =>
    obtain ⟨aw, pr, gp⟩ := h
    intro j hj hj0
    simp only [Array.size_setIfInBounds] at hj
    have hpj : (j-1)/2 < a.size := by omega
    simp only [Array.getElem_setIfInBounds, hj, hpj]
    by_cases hji : j = i
    · subst hji; grind
    · by_cases hpi : (j-1)/2 = i
      · have : j = 2*i+1 ∨ j = 2*i+2 := by omega
        grind
      · grind
  case case5 a i h1 h2 h3 ih =>
    apply ih (by simp; omega)
    obtain ⟨aw, pr, gp⟩ := h
    refine ⟨?_, ?_, ?_⟩
    · intro j hj hj0 hne hne2
      simp only [Array.size_setIfInBounds] at hj
      have hpj : (j-1)/2 < a.size := by omega
      simp only [Array.getElem_setIfInBounds, hj, hpj]
      by_cases hji : j = i
      · subst hji
        have := gp
        grind
      · by_cases hpi : (j-1)/2 = i
        · grind
        · grind
    · intro h0 hi'
      simp only [Array.size_setIfInBounds] at hi'
      grind
    · intro h0 hi' c hc hcp hc0
      simp only [Array.size_setIfInBounds] at hi' hc
      grind
  case case6 a i h1 h2 h3 =>
    obtain ⟨aw, pr, gp⟩ := h
    intro j hj hj0
    simp only [Array.size_setIfInBounds] at hj
    have hpj : (j-1)/2 < a.size := by omega
    simp only [Array.getElem_setIfInBounds, hj, hpj]
    by_cases hji : j = i
    · subst hji; grind
    · by_cases hpi : (j-1)/2 = i
      · have : j = 2*i+1 ∨ j = 2*i+2 := by omega
        grind
      · grind
  case case7 a i h1 =>
    obtain ⟨aw, pr, gp⟩ := h
    intro j hj hj0
    simp only [Array.size_setIfInBounds] at hj
    have hpj : (j-1)/2 < a.size := by omega
    simp only [Array.getElem_setIfInBounds, hj, hpj]
    by_cases hji : j = i
    · subst hji; grind
    · by_cases hpi : (j-1)/2 = i
      · have : j = 2*i+1 ∨ j = 2*i+2 := by omega
        grind
      · grind

/-- In a max-heap the root is a maximum. -/
theorem isHeap_root_max (a : Row P) (h : IsHeap a) :
    ∀ j (hj : j < a.size), a[j].prio ≤ (a[0]'(by omega)).prio := by
  intro j
  induction j using Nat.strongRecOn with
  | _ j ih =>
    intro hj
    by_cases h0 : j = 0
    · subst h0; exact le_refl _
    · have hp := h j hj (by omega)
      have := ih ((j-1)/2) (by omega) (by omega)
      exact le_trans hp this

@[simp] theorem push_size (c : Bool) (h : Row P) (p : P) (n : Int) (f : Bool) :
    (push c h p n f).1.size = h.size := by
  unfold push; split <;> (try split) <;> (try split) <;> simp

/-- accepted push: a permutation of the row with the root replaced (whole entries). -/
theorem push_perm (c : Bool) (h : Row P) (p : P) (n : Int) (f : Bool)
    (hacc : (push c h p n f).2 = true) :
    (push c h p n f).1.Perm (h.setIfInBounds 0 ⟨p, n, f⟩) := by
  unfold push at *
  split at hacc
  · rename_i hk
    split at hacc
    · simp at hacc
    · split at hacc
      · simp at hacc
      · simp only [*, dite_true, ite_false, if_false]
        simp_all only [ge_iff_le, not_le, Bool.not_eq_true, ↓reduceIte, ↓reduceDIte]
        exact sift_perm h _ 0 hk
  · simp at hacc

/-- rejected push: the row is unchanged. -/
theorem push_reject (c : Bool) (h : Row P) (p : P) (n : Int) (f : Bool)
    (hrej : (push c h p n f).2 = false) : (push c h p n f).1 = h := by
  unfold push at *
  split at hrej <;> (try split at hrej) <;> (try split at hrej) <;> simp_all

/-- the heap property is preserved by every push variant. -/
theorem push_heap (c : Bool) (h : Row P) (p : P) (n : Int) (f : Bool) (hh : IsHeap h) :
    IsHeap (push c h p n f).1 := by
  unfold push
  split
  · rename_i hk
    split
    · exact hh
    · split
      · exact hh
      · rename_i hlt _
        apply sift_heap h _ 0 hk
        refine ⟨?_, ?_, ?_⟩
        · intro j hj hj0 hne hne2
          exact hh j hj hj0
        · intro h0; omega
        · intro h0; omega
  · exact hh

/-- What acceptance means: room at the root, and (checked variants) not yet present. -/
theorem push_accept_iff (c : Bool) (h : Row P) (p : P) (n : Int) (f : Bool) :
    (push c h p n f).2 = true ↔
      ∃ hk : 0 < h.size, p < h[0].prio ∧ (c = true → ∀ e ∈ h, e.idx ≠ n) := by
  unfold push
  split
  · rename_i hk
    split
    · rename_i hge
      simp only [Bool.false_eq_true, false_iff, not_exists, not_and]
      intro _ hlt; exact absurd hge (not_le.mpr hlt)
    · rename_i hlt
      split
      · rename_i hany
        simp only [Bool.false_eq_true, false_iff, not_exists, not_and]
        intro _ _ hc
        simp only [Bool.and_eq_true] at hany
        obtain ⟨hc1, hany⟩ := hany
        obtain ⟨e, he, heq⟩ := Array.any_eq_true'.mp hany
        exact hc hc1 e he (by simpa using heq)
      · rename_i hany
        simp only [true_iff]
        refine ⟨hk, not_le.mp hlt, ?_⟩
        intro hc e he heq
        apply hany
        simp only [Bool.and_eq_true]
        exact ⟨hc, Array.any_eq_true'.mpr ⟨e, he, by simpa using heq⟩⟩
  · rename_i hk
    simp only [Bool.false_eq_true, false_iff, not_exists]
    intro hk'; exact absurd hk' hk

theorem mem_of_perm_set {h h' : Row P} {x : Entry P} (hk : 0 < h.size)
    (hp : h'.Perm (h.setIfInBounds 0 x)) (e : Entry P) :
    e ∈ h' ↔ e = x ∨ ∃ j, ∃ (hj : j < h.size), 0 < j ∧ h[j] = e := by
  rw [hp.mem_iff]
  constructor
  · intro hm
    obtain ⟨i, hi, rfl⟩ := Array.mem_iff_getElem.mp hm
    simp only [Array.size_setIfInBounds] at hi
    by_cases h0 : i = 0
    · subst h0; left; simp
    · right; exact ⟨i, hi, by omega, by simp [hi, Ne.symm h0]⟩
  · rintro (rfl | ⟨j, hj, hj0, rfl⟩)
    · exact Array.mem_iff_getElem.mpr ⟨0, by simpa using hk, by simp⟩
    · exact Array.mem_iff_getElem.mpr ⟨j, by simpa using hj, by
        simp [Array.getElem_setIfInBounds, hj]; omega⟩

end Pynn
