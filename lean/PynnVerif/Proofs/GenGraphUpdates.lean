import PynnVerif.Proofs.GenLeafUpdates

/-!
# The translated `pynndescent_.generate_graph_updates` refines the model's `joinUpdates`

For every vertex `i` of the block: new × new pairs (`for k in range(j, max_candidates)`, so the self pair is included),
then new × old pairs; `continue` on a negative entry; test `d <= thr[p] or d <= thr[q]`.
-/
set_option linter.unusedSectionVars false
set_option linter.unusedSimpArgs false
set_option linter.unusedVariables false
namespace Pynn
open GenK
variable {P : Type} [LE P] [LT P] [DecidableLE P] [DecidableLT P]

/-- the test of `generate_graph_updates` on one pair (`<=`) -/
def joinTest (thr : Nat → P) (dist : Nat → Nat → P) (p q : Nat) : Option (Upd P) :=
  let d := dist p q
  if d ≤ thr p ∨ d ≤ thr q then some ⟨p, q, d⟩ else none

theorem joinUpdates_eq (thr : Nat → P) (dist : Nat → Nat → P) (newRow oldRow : List Int) :
    joinUpdates thr dist newRow oldRow = joinUpdates.go oldRow (joinTest thr dist) newRow := rfl

theorem validC_nil : validC ([] : List Int) = [] := rfl
theorem validC_neg (x : Int) (l : List Int) (h : x < 0) : validC (x :: l) = validC l := by
  have h' : ¬ (0 ≤ x) := by omega
  simp [validC, List.filter_cons, h']
theorem validC_nonneg (x : Nat) (l : List Int) : validC ((x : Int) :: l) = x :: validC l := by
  simp [validC, List.filter_cons]

/-- **a scan loop of `generate_graph_updates`** (`for k in range(.., max_candidates): q = block[i, k]; if q < 0: continue;
test; append`) over row `i` of `block`, written once for the two textually separate loops -/
theorem graph_scan_spec
    (L : Int → Int → Int → Nat → Array (Array (Int × Int × P)) → Int →
      Option (LoopOut (Array (Array (Int × Int × P)) × Int) (Array (Array (Int × Int × P)))))
    (block : Array (Array Int)) (th : Array P) (data : Array (Array P)) (dist : Array P → Array P → P) (top : P)
    (hL0 : ∀ a b c U k, L a b c 0 U k = none)
    (hLs : ∀ (i p stop : Int) (fuel : Nat) (U : Array (Array (Int × Int × P))) (k : Int),
      L i p stop (fuel + 1) U k = (do
        if k < stop then
          let q := (← rd (← rd block i) k)
          if q < (0 : Int) then
            let k := (k + (1 : Int))
            L i p stop fuel U k
          else
            let d := (dist (← rd data p) (← rd data q))
            if d ≤ (← rd th p) then
              let U ← wr U i ((← rd U i).push (p, q, d))
              let k := (k + (1 : Int))
              L i p stop fuel U k
            else
              if d ≤ (← rd th q) then
                let U ← wr U i ((← rd U i).push (p, q, d))
                let k := (k + (1 : Int))
                L i p stop fuel U k
              else
                let k := (k + (1 : Int))
                L i p stop fuel U k
        else
          pure (.next (U, k))))
    (n pn w : Nat) (hn : n < block.size) (hw : block[n].size = w) (hpd : pn < data.size) (hpt : pn < th.size)
    (hok : LeafRowOk block[n] data.size) (hok' : LeafRowOk block[n] th.size) :
    ∀ (fuel : Nat) (U : Array (Array (Int × Int × P))) (k : Nat) (hU : n < U.size), k ≤ w → (w - k) + 1 ≤ fuel →
    ∃ k', L (n : Int) (pn : Int) (w : Int) fuel U (k : Int)
      = some (.next (U.setIfInBounds n (U[n] ++
          (((validC (block[n].toList.drop k)).filterMap (joinTest (thrOf th top) (distOf data dist) pn)).map triple).toArray),
          k')) := by
  intro fuel
  induction fuel with
  | zero => intro U k hU hk hf; omega
  | succ fuel ih =>
    intro U k hU hk hf
    rw [hLs]
    by_cases hlt : k < w
    · have ck : ((k : Nat) : Int) < (w : Int) := by omega
      have ek : ((k : Nat) : Int) + 1 = ((k + 1 : Nat) : Int) := by push_cast; rfl
      have hkr : k < block[n].size := by omega
      have hd : block[n].toList.drop k = block[n][k] :: block[n].toList.drop (k+1) := by
        rw [List.drop_eq_getElem_cons (by simpa using hkr)]; simp
      simp only [ck, if_true, rd_lt block n hn, rd_lt block[n] k hkr, Option.bind_eq_bind, Option.bind_some, hd, ek]
      by_cases hq : block[n][k] < 0
      · simp only [hq, if_true, validC_neg _ _ hq]
        exact ih U (k+1) hU (by omega) (by omega)
      · have hq0 : 0 ≤ block[n][k] := by omega
        have hmem : block[n][k] ∈ block[n].toList := by simp
        have hqd := hok _ hmem hq0
        have hqt := hok' _ hmem hq0
        obtain ⟨qn, hqn⟩ := Int.eq_ofNat_of_zero_le hq0
        rw [hqn] at hqd hqt ⊢
        simp only [Int.toNat_natCast] at hqd hqt
        have hnn : ¬ ((qn : Nat) : Int) < 0 := by omega
        simp only [hnn, if_false, rd_lt data pn hpd, rd_lt data qn hqd, rd_lt th pn hpt, rd_lt th qn hqt, rd_lt U n hU,
          Option.bind_some, wr_lt U n _ hU, validC_nonneg, List.filterMap_cons]
        have hthp : thrOf th top pn = th[pn] := by simp [thrOf, hpt]
        have hthq : thrOf th top qn = th[qn] := by simp [thrOf, hqt]
        have hdist : distOf data dist pn qn = dist data[pn] data[qn] := by simp [distOf, hpd, hqd]
        have step : ∀ t : Int × Int × P, ∀ L : List (Int × Int × P),
            (U.setIfInBounds n (U[n].push t)).setIfInBounds n
              (((U.setIfInBounds n (U[n].push t))[n]'(by simpa using hU)) ++ L.toArray)
            = U.setIfInBounds n (U[n] ++ (t :: L).toArray) := by
          intro t L
          rw [Array.setIfInBounds_setIfInBounds, Array.getElem_setIfInBounds_self]
          congr 1
          apply Array.toList_inj.mp
          simp only [Array.toList_append, Array.toList_push, List.append_assoc, List.singleton_append]
        by_cases h1 : dist data[pn] data[qn] ≤ th[pn]
        · have ht : joinTest (thrOf th top) (distOf data dist) pn qn = some ⟨pn, qn, dist data[pn] data[qn]⟩ := by
            simp [joinTest, hthp, hthq, hdist, h1]
          obtain ⟨k', hk'⟩ := ih (U.setIfInBounds n (U[n].push (↑pn, ↑qn, dist data[pn] data[qn]))) (k+1)
            (by simpa using hU) (by omega) (by omega)
          simp only [h1, if_true, ht, List.map_cons, hk', step, triple]
          exact ⟨k', rfl⟩
        · by_cases h2 : dist data[pn] data[qn] ≤ th[qn]
          · have ht : joinTest (thrOf th top) (distOf data dist) pn qn = some ⟨pn, qn, dist data[pn] data[qn]⟩ := by
              simp [joinTest, hthp, hthq, hdist, h1, h2]
            obtain ⟨k', hk'⟩ := ih (U.setIfInBounds n (U[n].push (↑pn, ↑qn, dist data[pn] data[qn]))) (k+1)
              (by simpa using hU) (by omega) (by omega)
            simp only [h1, h2, if_true, if_false, ht, List.map_cons, hk', step, triple]
            exact ⟨k', rfl⟩
          · have ht : joinTest (thrOf th top) (distOf data dist) pn qn = none := by
              simp [joinTest, hthp, hthq, hdist, h1, h2]
            obtain ⟨k', hk'⟩ := ih U (k+1) hU (by omega) (by omega)
            simp only [h1, h2, if_false, ht, hk']
            exact ⟨k', rfl⟩
    · have ck : ¬ ((k : Nat) : Int) < (w : Int) := by omega
      have hd : block[n].toList.drop k = [] := by
        apply List.drop_eq_nil_of_le; simp; omega
      simp only [ck, if_false, hd, validC_nil, List.filterMap_nil, List.map_nil, set_append_nil U n hU]
      exact ⟨_, rfl⟩

theorem graph_loop2_scan (nb : Array (Array Int)) (th : Array P) (data : Array (Array P)) (dist : Array P → Array P → P) :
    ∀ (i p stop : Int) (fuel : Nat) (U : Array (Array (Int × Int × P))) (k : Int),
      generate_graph_updates.loop2 nb th data dist i p stop (fuel + 1) U k = (do
        if k < stop then
          let q := (← rd (← rd nb i) k)
          if q < (0 : Int) then
            let k := (k + (1 : Int))
            generate_graph_updates.loop2 nb th data dist i p stop fuel U k
          else
            let d := (dist (← rd data p) (← rd data q))
            if d ≤ (← rd th p) then
              let U ← wr U i ((← rd U i).push (p, q, d))
              let k := (k + (1 : Int))
              generate_graph_updates.loop2 nb th data dist i p stop fuel U k
            else
              if d ≤ (← rd th q) then
                let U ← wr U i ((← rd U i).push (p, q, d))
                let k := (k + (1 : Int))
                generate_graph_updates.loop2 nb th data dist i p stop fuel U k
              else
                let k := (k + (1 : Int))
                generate_graph_updates.loop2 nb th data dist i p stop fuel U k
        else
          pure (.next (U, k))) := by
  intro i p stop fuel U k
  rw [generate_graph_updates.loop2]

theorem graph_loop3_scan (ob : Array (Array Int)) (th : Array P) (data : Array (Array P)) (dist : Array P → Array P → P) :
    ∀ (i p stop : Int) (fuel : Nat) (U : Array (Array (Int × Int × P))) (k : Int),
      generate_graph_updates.loop3 ob th data dist i p stop (fuel + 1) U k = (do
        if k < stop then
          let q := (← rd (← rd ob i) k)
          if q < (0 : Int) then
            let k := (k + (1 : Int))
            generate_graph_updates.loop3 ob th data dist i p stop fuel U k
          else
            let d := (dist (← rd data p) (← rd data q))
            if d ≤ (← rd th p) then
              let U ← wr U i ((← rd U i).push (p, q, d))
              let k := (k + (1 : Int))
              generate_graph_updates.loop3 ob th data dist i p stop fuel U k
            else
              if d ≤ (← rd th q) then
                let U ← wr U i ((← rd U i).push (p, q, d))
                let k := (k + (1 : Int))
                generate_graph_updates.loop3 ob th data dist i p stop fuel U k
              else
                let k := (k + (1 : Int))
                generate_graph_updates.loop3 ob th data dist i p stop fuel U k
        else
          pure (.next (U, k))) := by
  intro i p stop fuel U k
  rw [generate_graph_updates.loop3]


theorem go_neg (oldRow : List Int) (test : Nat → Nat → Option (Upd P)) (x : Int) (l : List Int) (h : x < 0) :
    joinUpdates.go oldRow test (x :: l) = joinUpdates.go oldRow test l := by
  rw [joinUpdates.go.eq_2]; simp [h]
theorem go_nonneg (oldRow : List Int) (test : Nat → Nat → Option (Upd P)) (x : Nat) (l : List Int) :
    joinUpdates.go oldRow test ((x : Int) :: l)
      = List.filterMap (test x) (validC ((x : Int) :: l)) ++ List.filterMap (test x) (validC oldRow)
        ++ joinUpdates.go oldRow test l := by
  rw [joinUpdates.go.eq_2]
  have : ¬ ((x : Nat) : Int) < 0 := by omega
  simp [this]

theorem graph_loop1_spec (nb ob : Array (Array Int)) (th : Array P) (data : Array (Array P))
    (dist : Array P → Array P → P) (top : P) (n w : Nat) (hn : n < nb.size) (hn' : n < ob.size)
    (hw : nb[n].size = w) (hw' : ob[n].size = w)
    (hok : LeafRowOk nb[n] data.size) (hok' : LeafRowOk nb[n] th.size)
    (hoo : LeafRowOk ob[n] data.size) (hoo' : LeafRowOk ob[n] th.size) :
    ∀ (fuel : Nat) (U : Array (Array (Int × Int × P))) (j : Nat) (hU : n < U.size), j ≤ w → (w - j) + w + 2 ≤ fuel →
    ∃ j', generate_graph_updates.loop1 nb ob th data dist (w : Int) (n : Int) (w : Int) fuel U (j : Int)
      = some (.next (U.setIfInBounds n (U[n] ++
          ((joinUpdates.go ob[n].toList (joinTest (thrOf th top) (distOf data dist)) (nb[n].toList.drop j)).map triple).toArray),
          j')) := by
  intro fuel
  induction fuel with
  | zero => intro U j hU hj hf; omega
  | succ fuel ih =>
    intro U j hU hj hf
    unfold generate_graph_updates.loop1
    by_cases hlt : j < w
    · have cj : ((j : Nat) : Int) < (w : Int) := by omega
      have ej : ((j : Nat) : Int) + 1 = ((j + 1 : Nat) : Int) := by push_cast; rfl
      have hjr : j < nb[n].size := by omega
      have hd : nb[n].toList.drop j = nb[n][j] :: nb[n].toList.drop (j+1) := by
        rw [List.drop_eq_getElem_cons (by simpa using hjr)]; simp
      simp only [cj, if_true, rd_lt nb n hn, rd_lt nb[n] j hjr, Option.bind_eq_bind, Option.bind_some, ej]
      by_cases hp : nb[n][j] < 0
      · simp only [hp, if_true, hd, go_neg _ _ _ _ hp]
        exact ih U (j+1) hU (by omega) (by omega)
      · have hp0 : 0 ≤ nb[n][j] := by omega
        have hmem : nb[n][j] ∈ nb[n].toList := by simp
        have hpd := hok _ hmem hp0
        have hpt := hok' _ hmem hp0
        obtain ⟨pn, hpn⟩ := Int.eq_ofNat_of_zero_le hp0
        have hd' : nb[n].toList.drop j = (pn : Int) :: nb[n].toList.drop (j+1) := by rw [hd, hpn]
        rw [hpn] at hpd hpt ⊢
        simp only [Int.toNat_natCast] at hpd hpt
        have hnn : ¬ ((pn : Nat) : Int) < 0 := by omega
        obtain ⟨k2, h2⟩ := graph_scan_spec (generate_graph_updates.loop2 nb th data dist) nb th data dist top
          (fun a b c U k => rfl) (graph_loop2_scan nb th data dist) n pn w hn hw hpd hpt hok hok' fuel U j hU (by omega) (by omega)
        obtain ⟨k3, h3⟩ := graph_scan_spec (generate_graph_updates.loop3 ob th data dist) ob th data dist top
          (fun a b c U k => rfl) (graph_loop3_scan ob th data dist) n pn w hn' hw' hpd hpt hoo hoo' fuel
          (U.setIfInBounds n (U[n] ++ (List.map triple (List.filterMap (joinTest (thrOf th top) (distOf data dist) pn)
            (validC (List.drop j nb[n].toList)))).toArray)) 0 (by simpa using hU) (by omega) (by omega)
        simp only [List.drop_zero, Int.natCast_zero] at h3
        rw [set_set_append U n hU] at h3
        simp only [hnn, if_false, h2, Option.bind_some, h3]
        obtain ⟨j', h1⟩ := ih (U.setIfInBounds n (U[n] ++ (List.map triple (List.filterMap (joinTest (thrOf th top) (distOf data dist) pn)
            (validC (List.drop j nb[n].toList))) ++ List.map triple (List.filterMap (joinTest (thrOf th top) (distOf data dist) pn)
            (validC ob[n].toList))).toArray)) (j+1) (by simpa using hU) (by omega) (by omega)
        rw [h1, set_set_append U n hU, hd', go_nonneg, ← hd', List.map_append, List.map_append]
        exact ⟨j', rfl⟩
    · have cj : ¬ ((j : Nat) : Int) < (w : Int) := by omega
      have hd : nb[n].toList.drop j = [] := by
        apply List.drop_eq_nil_of_le; simp; omega
      have hg : joinUpdates.go ob[n].toList (joinTest (thrOf th top) (distOf data dist)) [] = [] := by
        rw [joinUpdates.go.eq_1]
      simp only [cj, if_false, hd, hg, List.map_nil, set_append_nil U n hU]
      exact ⟨_, rfl⟩


theorem graph_loop0_spec (nb ob : Array (Array Int)) (th : Array P) (data : Array (Array P))
    (dist : Array P → Array P → P) (top : P) (w : Nat) (hob : ob.size = nb.size)
    (hw : ∀ r (h : r < nb.size), nb[r].size = w ∧ (ob[r]'(by omega)).size = w)
    (hok : ∀ r (h : r < nb.size), LeafRowOk nb[r] data.size ∧ LeafRowOk nb[r] th.size ∧
      LeafRowOk (ob[r]'(by omega)) data.size ∧ LeafRowOk (ob[r]'(by omega)) th.size) :
    ∀ (fuel : Nat) (U : Array (Array (Int × Int × P))) (n0 : Nat), U.size = nb.size → n0 ≤ nb.size →
      (nb.size - n0) + w + w + 3 ≤ fuel →
    ∃ U' n', generate_graph_updates.loop0 nb ob th data dist (w : Int) (nb.size : Int) fuel U (n0 : Int)
        = some (.next (U', n')) ∧ U'.size = U.size ∧
      ∀ r (h : r < U.size) (h' : r < U'.size) (h'' : r < nb.size),
        U'[r] = if n0 ≤ r then U[r] ++ ((joinUpdates (thrOf th top) (distOf data dist) nb[r].toList
                  (ob[r]'(by omega)).toList).map triple).toArray
                else U[r] := by
  intro fuel
  induction fuel with
  | zero => intro U n0 hU hn hf; omega
  | succ fuel ih =>
    intro U n0 hU hn hf
    unfold generate_graph_updates.loop0
    by_cases hlt : n0 < nb.size
    · have cn : ((n0 : Nat) : Int) < (nb.size : Int) := by omega
      have en : ((n0 : Nat) : Int) + 1 = ((n0 + 1 : Nat) : Int) := by push_cast; rfl
      obtain ⟨o1, o2, o3, o4⟩ := hok n0 hlt
      obtain ⟨j', h1⟩ := graph_loop1_spec nb ob th data dist top n0 w hlt (by omega) (hw n0 hlt).1 (hw n0 hlt).2 o1 o2 o3 o4
        fuel U 0 (by omega) (by omega) (by omega)
      simp only [List.drop_zero, Int.natCast_zero, ← joinUpdates_eq] at h1
      simp only [cn, if_true, h1, Option.bind_eq_bind, Option.bind_some, en]
      obtain ⟨U', n', h2, hs, hrows⟩ := ih (U.setIfInBounds n0 (U[n0] ++ (List.map triple
          (joinUpdates (thrOf th top) (distOf data dist) nb[n0].toList (ob[n0]'(by omega)).toList)).toArray)) (n0+1)
        (by simpa using hU) (by omega) (by omega)
      refine ⟨U', n', h2, by simpa using hs, ?_⟩
      intro r h h' h''
      rw [hrows r (by simpa using h) h' h'']
      rw [Array.getElem_setIfInBounds h]
      by_cases hr : n0 = r
      · subst hr
        have : ¬ n0 + 1 ≤ n0 := by omega
        simp [this]
      · by_cases hle : n0 ≤ r
        · have : n0 + 1 ≤ r := by omega
          simp [hr, this, hle]
        · have : ¬ n0 + 1 ≤ r := by omega
          simp [hr, this, hle]
    · have cn : ¬ ((n0 : Nat) : Int) < (nb.size : Int) := by omega
      simp only [cn, if_false]
      refine ⟨U, _, rfl, rfl, ?_⟩
      intro r h h' h''
      have : ¬ n0 ≤ r := by omega
      simp [this]

/-- every update the model's local join emits for a vertex joins non-negative entries of its two candidate rows -/
theorem mem_go (test : Nat → Nat → Option (Upd P)) (htest : ∀ p q u, test p q = some u → u.p = p ∧ u.q = q)
    (oldRow : List Int) (u : Upd P) : ∀ (newRow : List Int), u ∈ joinUpdates.go oldRow test newRow →
    (∃ a ∈ newRow, 0 ≤ a ∧ a.toNat = u.p) ∧ (∃ b ∈ newRow ++ oldRow, 0 ≤ b ∧ b.toNat = u.q)
  | [], h => by rw [joinUpdates.go.eq_1] at h; simp at h
  | x :: l, h => by
    have hv : ∀ (q : Nat) (m : List Int), q ∈ validC m → ∃ b ∈ m, 0 ≤ b ∧ b.toNat = q := by
      intro q m hq
      simp only [validC, List.mem_map, List.mem_filter, decide_eq_true_eq] at hq
      obtain ⟨b, ⟨hb, hb0⟩, rfl⟩ := hq
      exact ⟨b, hb, hb0, rfl⟩
    by_cases hx : x < 0
    · rw [go_neg _ _ _ _ hx] at h
      obtain ⟨⟨a, ha, r1⟩, ⟨b, hb, r2⟩⟩ := mem_go test htest oldRow u l h
      refine ⟨⟨a, by simp [ha], r1⟩, ⟨b, ?_, r2⟩⟩
      rcases List.mem_append.mp hb with hb | hb
      · simp [hb]
      · simp [hb]
    · obtain ⟨xn, rfl⟩ := Int.eq_ofNat_of_zero_le (by omega : 0 ≤ x)
      rw [go_nonneg] at h
      rcases List.mem_append.mp h with h | h
      · rcases List.mem_append.mp h with h | h
        · obtain ⟨q, hq, ht⟩ := List.mem_filterMap.mp h
          obtain ⟨e1, e2⟩ := htest _ _ _ ht
          obtain ⟨b, hb, hb0, hbq⟩ := hv q _ hq
          exact ⟨⟨(xn : Int), by simp, by omega, by simp [e1]⟩, ⟨b, by rcases List.mem_cons.mp hb with h | h <;> simp [h], hb0, by omega⟩⟩
        · obtain ⟨q, hq, ht⟩ := List.mem_filterMap.mp h
          obtain ⟨e1, e2⟩ := htest _ _ _ ht
          obtain ⟨b, hb, hb0, hbq⟩ := hv q _ hq
          exact ⟨⟨(xn : Int), by simp, by omega, by simp [e1]⟩, ⟨b, by simp [hb], hb0, by omega⟩⟩
      · obtain ⟨⟨a, ha, r1⟩, ⟨b, hb, r2⟩⟩ := mem_go test htest oldRow u l h
        refine ⟨⟨a, by simp [ha], r1⟩, ⟨b, ?_, r2⟩⟩
        rcases List.mem_append.mp hb with hb | hb
        · simp [hb]
        · simp [hb]

/-- **`generate_graph_updates` (translated) refines `joinUpdates`**, row by row; every triple is `OkTriple`. -/
theorem generate_graph_updates_refines (nb ob : Array (Array Int)) (th : Array P) (data : Array (Array P))
    (dist : Array P → Array P → P) (top : P) (w N : Nat) (hob : ob.size = nb.size)
    (hw : ∀ r (h : r < nb.size), nb[r].size = w ∧ (ob[r]'(by omega)).size = w)
    (hok : ∀ r (h : r < nb.size), LeafRowOk nb[r] data.size ∧ LeafRowOk nb[r] th.size ∧
      LeafRowOk (ob[r]'(by omega)) data.size ∧ LeafRowOk (ob[r]'(by omega)) th.size)
    (hN : ∀ r (h : r < nb.size), LeafRowOk nb[r] N ∧ LeafRowOk (ob[r]'(by omega)) N)
    (fuel : Nat) (hf : nb.size + w + w + 3 ≤ fuel) :
    ∃ U', GenK.generate_graph_updates fuel top nb ob th data dist = some U' ∧ U'.size = nb.size ∧
      (∀ r (h : r < U'.size) (h' : r < nb.size),
        U'[r] = #[((-1 : Int), (-1 : Int), top)] ++
          ((joinUpdates (thrOf th top) (distOf data dist) nb[r].toList (ob[r]'(by omega)).toList).map triple).toArray ∧
        U'[r].toList.filterMap updOf
          = joinUpdates (thrOf th top) (distOf data dist) nb[r].toList (ob[r]'(by omega)).toList) ∧
      (∀ b ∈ U'.toList, ∀ x ∈ b.toList, OkTriple N x) := by
  have hnc : nb.size = 0 ∨ ncols nb = w := by
    by_cases h0 : 0 < nb.size
    · right; simp [ncols, h0, (hw 0 h0).1]
    · left; omega
  obtain ⟨U', n', h1, hs, hrows⟩ := graph_loop0_spec nb ob th data dist top w hob hw hok fuel
    (Array.replicate nb.size #[((-1 : Int), (-1 : Int), top)]) 0 (by simp) (by omega) (by omega)
  have hrun : GenK.generate_graph_updates fuel top nb ob th data dist = some U' := by
    unfold GenK.generate_graph_updates
    simp only [Int.toNat_natCast]
    rcases hnc with h0 | hnc
    · -- no rows: the loop exits at once whatever `max_candidates` is
      cases fuel with
      | zero => omega
      | succ fuel =>
        unfold generate_graph_updates.loop0 at h1 ⊢
        have c : ¬ ((0 : Nat) : Int) < (nb.size : Int) := by omega
        simp only [Int.natCast_zero] at c h1
        simp only [c, if_false, Option.pure_def, Option.some.injEq, LoopOut.next.injEq, Prod.mk.injEq] at h1 ⊢
        simp only [Option.bind_eq_bind, Option.bind_some, h1.1]
    · simp only [hnc, Int.natCast_zero] at h1 ⊢
      simp only [h1, Option.bind_eq_bind, Option.bind_some]
      rfl
  have hrows' : ∀ r (h : r < U'.size) (h' : r < nb.size),
      U'[r] = #[((-1 : Int), (-1 : Int), top)] ++
        ((joinUpdates (thrOf th top) (distOf data dist) nb[r].toList (ob[r]'(by omega)).toList).map triple).toArray := by
    intro r h h'
    have := hrows r (by simpa using h') h h'
    simpa using this
  refine ⟨U', hrun, by simpa using hs, ?_, ?_⟩
  · intro r h h'
    refine ⟨hrows' r h h', ?_⟩
    rw [hrows' r h h']
    have hph : updOf (((-1 : Int), (-1 : Int), top) : Int × Int × P) = none := by simp [updOf]
    simp only [Array.toList_append, List.cons_append, List.nil_append, List.filterMap_cons, hph, filterMap_updOf_triples]
  · intro b hb x hx
    obtain ⟨r, hr, rfl⟩ := List.mem_iff_getElem.mp hb
    have hr' : r < U'.size := by simpa using hr
    have hrl : r < nb.size := by have := hs; simp at this; omega
    have hb' : U'.toList[r] = U'[r] := by simp
    rw [hb', hrows' r hr' hrl] at hx
    simp only [Array.toList_append, List.mem_append, List.mem_cons, List.not_mem_nil, or_false,
      List.mem_map] at hx
    rcases hx with rfl | ⟨u, hu, rfl⟩
    · exact Or.inl rfl
    · rw [joinUpdates_eq] at hu
      have htest : ∀ p q u, joinTest (thrOf th top) (distOf data dist) p q = some u → u.p = p ∧ u.q = q := by
        intro p q u h
        simp only [joinTest] at h
        split at h
        · cases h; exact ⟨rfl, rfl⟩
        · cases h
      obtain ⟨⟨a, ha, ha0, hap⟩, ⟨c, hc, hc0, hcq⟩⟩ := mem_go _ htest _ u _ hu
      have h1 := (hN r hrl).1 a (by simpa using ha) ha0
      have h2 : c.toNat < N := by
        rcases List.mem_append.mp hc with hc | hc
        · exact (hN r hrl).1 c (by simpa using hc) hc0
        · exact (hN r hrl).2 c (by simpa using hc) hc0
      right; right
      simp only [triple]
      omega

end Pynn
