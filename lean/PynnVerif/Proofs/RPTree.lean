import PynnVerif.Model.RPTree
/-!
# Lemmas about the random-projection tree model (`Model/RPTree.lean`)

Core Lean only (no Mathlib).  Sections: construction (`buildTree`), block ranges,
the layout predicate `Laid` and the pure row specification `flatRows` of
`recursive_convert`, the array-threading proof `recursiveConvert_spec`, routing,
the linked form and the leaf array.
-/
namespace Pynn.RP
open List

/-! ### trees -/
theorem Tree.numNodes_pos (t : Tree) : 0 < t.numNodes := by cases t <;> simp [Tree.numNodes]

theorem Tree.length_flatten_leaves (t : Tree) : t.leaves.flatten.length = t.size := by
  induction t with
  | leaf idx => simp [Tree.leaves, Tree.size]
  | node l r ihl ihr => simp [Tree.leaves, Tree.size, ihl, ihr]

theorem Tree.depth_lt_numNodes (t : Tree) : t.depth < t.numNodes := by
  induction t with
  | leaf idx => simp [Tree.depth, Tree.numNodes]
  | node l r ihl ihr => simp only [Tree.depth, Tree.numNodes]; omega

/-! ### construction -/
theorem splitBy_perm (s : Nat → Bool) (idx : List Int) :
    ((splitBy s idx).1 ++ (splitBy s idx).2).Perm idx := by
  unfold splitBy
  simp only [← List.map_append]
  have h := (List.filter_append_perm (fun p : Int × Nat => s p.2) idx.zipIdx)
  have h2 : (filter (fun p : Int × Nat => !s p.2) idx.zipIdx ++ filter (fun p => s p.2) idx.zipIdx).Perm idx.zipIdx :=
    List.perm_append_comm.trans h
  have h3 := h2.map Prod.fst
  simpa using h3

theorem buildTree_leaves_perm (o : Oracle) (ls : Nat) (d : Nat) (path : List Bool) (idx : List Int) :
    (buildTree o ls d path idx).leaves.flatten.Perm idx := by
  induction d generalizing path idx with
  | zero => simp [buildTree, Tree.leaves]
  | succ d ih =>
    unfold buildTree
    split
    · simp only [Tree.leaves, List.flatten_append]
      exact ((ih _ _).append (ih _ _)).trans (splitBy_perm _ _)
    · simp [Tree.leaves]
/-! ### block ranges -/
theorem ranges_append (a b : List (List Int)) (s : Nat) :
    ranges (a ++ b) s = ranges a s ++ ranges b (s + a.flatten.length) := by
  induction a generalizing s with
  | nil => simp [ranges]
  | cons x xs ih => simp [ranges, ih, Nat.add_assoc]

theorem length_ranges (ls : List (List Int)) (s : Nat) : (ranges ls s).length = ls.length := by
  induction ls generalizing s with
  | nil => rfl
  | cons x xs ih => simp [ranges, ih]

/-- consecutive blocks from `a` to `b` -/
def Tiles : List (Nat × Nat) → Nat → Nat → Prop
  | [], a, b => a = b
  | r :: rs, a, b => r.1 = a ∧ r.1 ≤ r.2 ∧ Tiles rs r.2 b

theorem tiles_ranges (ls : List (List Int)) (s : Nat) : Tiles (ranges ls s) s (s + ls.flatten.length) := by
  induction ls generalizing s with
  | nil => simp [ranges, Tiles]
  | cons x xs ih =>
    simp only [ranges, Tiles, List.flatten_cons, List.length_append]
    refine ⟨trivial, by omega, ?_⟩
    have := ih (s + x.length)
    rwa [Nat.add_assoc] at this

theorem mem_ranges {ls : List (List Int)} {s a b : Nat} (h : (a, b) ∈ ranges ls s) :
    ∃ leaf ∈ ls, s ≤ a ∧ b = a + leaf.length ∧ b ≤ s + ls.flatten.length ∧
      (ls.flatten.drop (a - s)).take (b - a) = leaf := by
  induction ls generalizing s with
  | nil => simp [ranges] at h
  | cons x xs ih =>
    simp only [ranges, List.mem_cons, Prod.mk.injEq] at h
    rcases h with ⟨rfl, rfl⟩ | h
    · refine ⟨x, by simp, by omega, rfl, by simp, ?_⟩
      simp
    · obtain ⟨leaf, hm, h1, h2, h3, h4⟩ := ih h
      refine ⟨leaf, by simp [hm], by omega, h2, by simp only [List.flatten_cons, List.length_append]; omega, ?_⟩
      rw [List.flatten_cons, List.drop_append, List.drop_eq_nil_of_le (by omega), List.nil_append]
      rw [← h4]; congr 2; omega


/-! ### layout of a subtree in the flat `children` array -/
def Laid (ch0 ch1 : Array Int) : Tree → Nat → Nat → Prop
  | .leaf idx, k, s => ch0[k]? = some (-(s:Int)) ∧ ch1[k]? = some (-((s + idx.length : Nat) : Int))
  | .node l r, k, s => ch0[k]? = some ((k:Int) + 1) ∧ ch1[k]? = some ((k + 1 + l.numNodes : Nat) : Int) ∧
      Laid ch0 ch1 l (k+1) s ∧ Laid ch0 ch1 r (k + 1 + l.numNodes) (s + l.size)

theorem Laid.congr {ch0 ch1 ch0' ch1' : Array Int} {t : Tree} {k s : Nat}
    (h : Laid ch0 ch1 t k s)
    (heq : ∀ i, k ≤ i → i < k + t.numNodes → ch0'[i]? = ch0[i]? ∧ ch1'[i]? = ch1[i]?) :
    Laid ch0' ch1' t k s := by
  induction t generalizing k s with
  | leaf idx =>
    simp only [Laid, Tree.numNodes] at *
    have := heq k (by omega) (by omega)
    grind
  | node l r ihl ihr =>
    simp only [Laid, Tree.numNodes] at *
    have h0 := heq k (by omega) (by omega)
    refine ⟨by grind, by grind, ihl h.2.2.1 ?_, ihr h.2.2.2 ?_⟩
    · intro i h1 h2; exact heq i (by omega) (by omega)
    · intro i h1 h2; exact heq i (by omega) (by omega)

theorem Laid.rows {ch0 ch1 : Array Int} {t : Tree} {k s : Nat} (h : Laid ch0 ch1 t k s) :
    ∀ i c0 c1, k ≤ i → i < k + t.numNodes → ch0[i]? = some c0 → ch1[i]? = some c1 →
      (0 < c0 → c0 = (i:Int) + 1 ∧ (i:Int) + 1 < c1 ∧ c1 < ((k + t.numNodes : Nat) : Int)) ∧
      (c0 ≤ 0 → ∃ a b, (a, b) ∈ ranges t.leaves s ∧ c0 = -(a:Int) ∧ c1 = -(b:Int)) := by
  induction t generalizing k s with
  | leaf idx =>
    intro i c0 c1 h1 h2 e0 e1
    simp only [Laid, Tree.numNodes] at *
    have : i = k := by omega
    subst this
    rw [h.1] at e0; rw [h.2] at e1
    simp only [Option.some.injEq] at e0 e1
    subst e0; subst e1
    refine ⟨by omega, fun _ => ⟨s, s + idx.length, by simp [Tree.leaves, ranges], rfl, rfl⟩⟩
  | node l r ihl ihr =>
    intro i c0 c1 h1 h2 e0 e1
    simp only [Laid, Tree.numNodes] at h h2 ⊢
    obtain ⟨g0, g1, gl, gr⟩ := h
    have pl := l.numNodes_pos
    have pr := r.numNodes_pos
    by_cases hik : i = k
    · subst hik
      rw [g0] at e0; rw [g1] at e1
      simp only [Option.some.injEq] at e0 e1
      subst e0; subst e1
      exact ⟨fun _ => by omega, fun _ => by omega⟩
    · by_cases hil : i < k + 1 + l.numNodes
      · have := ihl gl i c0 c1 (by omega) (by omega) e0 e1
        refine ⟨fun hp => ?_, fun hn => ?_⟩
        · have := this.1 hp; omega
        · obtain ⟨a, b, hm, q⟩ := this.2 hn
          exact ⟨a, b, by simp [Tree.leaves, ranges_append, hm], q⟩
      · have := ihr gr i c0 c1 (by omega) (by omega) e0 e1
        refine ⟨fun hp => ?_, fun hn => ?_⟩
        · have := this.1 hp; omega
        · obtain ⟨a, b, hm, q⟩ := this.2 hn
          exact ⟨a, b, by simp [Tree.leaves, ranges_append, l.length_flatten_leaves, hm], q⟩

theorem Laid.bound {ch0 ch1 : Array Int} {t : Tree} {k s : Nat} (h : Laid ch0 ch1 t k s) :
    k + t.numNodes ≤ ch0.size ∧ k + t.numNodes ≤ ch1.size := by
  induction t generalizing k s with
  | leaf idx =>
    simp only [Laid, Tree.numNodes] at *
    have h1 := h.1; have h2 := h.2
    rw [Array.getElem?_eq_some_iff] at h1 h2
    obtain ⟨a, _⟩ := h1; obtain ⟨b, _⟩ := h2
    omega
  | node l r ihl ihr =>
    simp only [Laid, Tree.numNodes] at *
    have := ihr h.2.2.2
    omega

/-- The rows `recursive_convert` writes for subtree `t` rooted at row `k` with its first leaf at offset `s`
(pure specification of the `children` array). -/
def flatRows : Tree → Nat → Nat → List (Int × Int)
  | .leaf idx, _, s => [(-(s:Int), -((s + idx.length : Nat) : Int))]
  | .node l r, k, s => ((k:Int) + 1, ((k + 1 + l.numNodes : Nat) : Int)) ::
      (flatRows l (k + 1) s ++ flatRows r (k + 1 + l.numNodes) (s + l.size))

theorem length_flatRows (t : Tree) (k s : Nat) : (flatRows t k s).length = t.numNodes := by
  induction t generalizing k s with
  | leaf idx => rfl
  | node l r ihl ihr => simp [flatRows, Tree.numNodes, ihl, ihr]

theorem Laid.getElem? {ch0 ch1 : Array Int} {t : Tree} {k s : Nat} (h : Laid ch0 ch1 t k s) :
    ∀ j, j < t.numNodes → ∃ c0 c1, ch0[k + j]? = some c0 ∧ ch1[k + j]? = some c1 ∧
      (flatRows t k s)[j]? = some (c0, c1) := by
  induction t generalizing k s with
  | leaf idx =>
    intro j hj
    simp only [Tree.numNodes] at hj
    have : j = 0 := by omega
    subst this
    exact ⟨_, _, h.1, h.2, rfl⟩
  | node l r ihl ihr =>
    intro j hj
    simp only [Tree.numNodes] at hj
    obtain ⟨g0, g1, gl, gr⟩ := h
    cases j with
    | zero => exact ⟨_, _, g0, g1, rfl⟩
    | succ j =>
      by_cases hjl : j < l.numNodes
      · obtain ⟨c0, c1, e0, e1, e2⟩ := ihl gl j hjl
        have : k + 1 + j = k + (j + 1) := by omega
        rw [this] at e0 e1
        refine ⟨c0, c1, e0, e1, ?_⟩
        simp only [flatRows, List.getElem?_cons_succ]
        rw [List.getElem?_append_left (by rw [length_flatRows]; exact hjl)]
        exact e2
      · obtain ⟨c0, c1, e0, e1, e2⟩ := ihr gr (j - l.numNodes) (by omega)
        have : k + 1 + l.numNodes + (j - l.numNodes) = k + (j + 1) := by omega
        rw [this] at e0 e1
        refine ⟨c0, c1, e0, e1, ?_⟩
        simp only [flatRows, List.getElem?_cons_succ]
        rw [List.getElem?_append_right (by rw [length_flatRows]; omega), length_flatRows]
        exact e2

theorem Laid.zip_eq {ch0 ch1 : Array Int} {t : Tree} (h : Laid ch0 ch1 t 0 0)
    (h0 : ch0.size = t.numNodes) (h1 : ch1.size = t.numNodes) :
    ch0.toList.zip ch1.toList = flatRows t 0 0 := by
  apply List.ext_getElem?
  intro j
  by_cases hj : j < t.numNodes
  · obtain ⟨c0, c1, e0, e1, e2⟩ := h.getElem? j hj
    rw [e2, List.getElem?_zip_eq_some]
    simp only [Nat.zero_add] at e0 e1
    simp [e0, e1]
  · rw [List.getElem?_eq_none (by simp; omega), List.getElem?_eq_none (by rw [length_flatRows]; omega)]

theorem leafRows_flatRows (t : Tree) (k s : Nat) :
    ((flatRows t k s).filter (fun p => p.1 ≤ 0)).map (fun p => (-p.1, -p.2)) =
      (ranges t.leaves s).map (fun r => ((r.1 : Int), (r.2 : Int))) := by
  induction t generalizing k s with
  | leaf idx =>
    have : (-(s:Int) ≤ 0) := by omega
    simp [flatRows, Tree.leaves, ranges, this]
  | node l r ihl ihr =>
    have : ¬ ((k:Int) + 1 ≤ 0) := by omega
    simp only [flatRows, Tree.leaves, ranges_append, List.filter_cons, this, decide_false, Bool.false_eq_true,
      if_false, List.filter_append, List.map_append, ihl, ihr, l.length_flatten_leaves]
/-! ### `recursive_convert` -/
@[simp] theorem size_writeSlice (a : Array Int) (st : Nat) (xs : List Int) : (writeSlice a st xs).size = a.size := by
  induction xs generalizing a st with
  | nil => rfl
  | cons x xs ih => simp [writeSlice, ih]

theorem getElem?_writeSlice (a : Array Int) (st : Nat) (xs : List Int) (h : st + xs.length ≤ a.size) (i : Nat) :
    (writeSlice a st xs)[i]? = if st ≤ i ∧ i < st + xs.length then xs[i - st]? else a[i]? := by
  induction xs generalizing a st with
  | nil => simp [writeSlice]; omega
  | cons x xs ih =>
    simp only [writeSlice]
    rw [ih _ _ (by simp at h ⊢; omega)]
    by_cases h1 : i = st
    · subst h1
      simp at h
      have hn : ¬ (i + 1 ≤ i ∧ i < i + 1 + xs.length) := by omega
      rw [if_neg hn, if_pos (by simp)]
      simp [Array.getElem?_setIfInBounds]; omega
    · by_cases h2 : st + 1 ≤ i ∧ i < st + 1 + xs.length
      · have : st ≤ i ∧ i < st + (x :: xs).length := by simp; omega
        rw [if_pos h2, if_pos this]
        have : i - st = (i - (st + 1)) + 1 := by omega
        rw [this]; simp
      · have : ¬ (st ≤ i ∧ i < st + (x :: xs).length) := by simp at h2 ⊢; omega
        rw [if_neg h2, if_neg this]
        simp [Array.getElem?_setIfInBounds]; omega

theorem recursiveConvert_node (l r : Tree) (F : Flat) (k s : Nat) :
    recursiveConvert (.node l r) F k s =
      recursiveConvert r
        { (recursiveConvert l { F with ch0 := F.ch0.setIfInBounds k ((k : Int) + 1) } (k + 1) s).1 with
          ch1 := (recursiveConvert l { F with ch0 := F.ch0.setIfInBounds k ((k : Int) + 1) } (k + 1) s).1.ch1.setIfInBounds k
            (((recursiveConvert l { F with ch0 := F.ch0.setIfInBounds k ((k : Int) + 1) } (k + 1) s).2.1 : Int) + 1) }
        ((recursiveConvert l { F with ch0 := F.ch0.setIfInBounds k ((k : Int) + 1) } (k + 1) s).2.1 + 1)
        (recursiveConvert l { F with ch0 := F.ch0.setIfInBounds k ((k : Int) + 1) } (k + 1) s).2.2 := by
  simp [recursiveConvert]

theorem recursiveConvert_spec (t : Tree) (F : Flat) (k s : Nat)
    (hk0 : k + t.numNodes ≤ F.ch0.size) (hk1 : k + t.numNodes ≤ F.ch1.size) (hs : s + t.size ≤ F.indices.size) :
    (recursiveConvert t F k s).2.1 + 1 = k + t.numNodes ∧ (recursiveConvert t F k s).2.2 = s + t.size ∧
    (recursiveConvert t F k s).1.ch0.size = F.ch0.size ∧ (recursiveConvert t F k s).1.ch1.size = F.ch1.size ∧
    (recursiveConvert t F k s).1.indices.size = F.indices.size ∧
    (∀ i, i < k ∨ k + t.numNodes ≤ i →
      (recursiveConvert t F k s).1.ch0[i]? = F.ch0[i]? ∧ (recursiveConvert t F k s).1.ch1[i]? = F.ch1[i]?) ∧
    (∀ i, i < s ∨ s + t.size ≤ i → (recursiveConvert t F k s).1.indices[i]? = F.indices[i]?) ∧
    Laid (recursiveConvert t F k s).1.ch0 (recursiveConvert t F k s).1.ch1 t k s ∧
    (∀ j, j < t.size → (recursiveConvert t F k s).1.indices[s + j]? = t.leaves.flatten[j]?) := by
  induction t generalizing F k s with
  | leaf idx =>
    simp only [Tree.numNodes, Tree.size, Tree.leaves] at *
    simp only [recursiveConvert, Laid]
    refine ⟨trivial, trivial, by simp, by simp, by simp, ?_, ?_, ?_, ?_⟩
    · intro i hi; simp [Array.getElem?_setIfInBounds]; omega
    · intro i hi; rw [getElem?_writeSlice _ _ _ hs]; simp; omega
    · simp [Array.getElem?_setIfInBounds]; omega
    · intro j hj; rw [getElem?_writeSlice _ _ _ hs]; simp [hj]
  | node l r ihl ihr =>
    simp only [Tree.numNodes, Tree.size, Tree.leaves] at *
    rw [recursiveConvert_node]
    generalize hF1 : ({ F with ch0 := F.ch0.setIfInBounds k ((k:Int)+1) } : Flat) = F1
    have f1a : F1.ch0 = F.ch0.setIfInBounds k ((k:Int)+1) := by subst hF1; rfl
    have f1b : F1.ch1 = F.ch1 := by subst hF1; rfl
    have f1c : F1.indices = F.indices := by subst hF1; rfl
    have I1 := ihl F1 (k+1) s (by rw [f1a]; simp; omega) (by rw [f1b]; omega) (by rw [f1c]; omega)
    generalize hR1 : recursiveConvert l F1 (k+1) s = R1 at I1 ⊢
    obtain ⟨a1, a2, a3, a4, a5, a6, a7, a8, a9⟩ := I1
    generalize hF3 : ({ R1.1 with ch1 := R1.1.ch1.setIfInBounds k ((R1.2.1 : Int) + 1) } : Flat) = F3
    have f3a : F3.ch0 = R1.1.ch0 := by subst hF3; rfl
    have f3b : F3.ch1 = R1.1.ch1.setIfInBounds k ((R1.2.1 : Int) + 1) := by subst hF3; rfl
    have f3c : F3.indices = R1.1.indices := by subst hF3; rfl
    have e1 : R1.2.1 + 1 = k + 1 + l.numNodes := by omega
    rw [e1, a2]
    have I2 := ihr F3 (k + 1 + l.numNodes) (s + l.size) (by rw [f3a, a3, f1a]; simp; omega)
      (by rw [f3b]; simp; rw [a4, f1b]; omega) (by rw [f3c, a5, f1c]; omega)
    generalize hR2 : recursiveConvert r F3 (k + 1 + l.numNodes) (s + l.size) = R2 at I2 ⊢
    obtain ⟨b1, b2, b3, b4, b5, b6, b7, b8, b9⟩ := I2
    have hk : k < F.ch0.size := by omega
    have hk' : k < F.ch1.size := by omega
    have c0 : ∀ i, i ≠ k → F1.ch0[i]? = F.ch0[i]? := by
      intro i hi; rw [f1a, Array.getElem?_setIfInBounds]; simp; omega
    have c1 : ∀ i, i ≠ k → F3.ch1[i]? = R1.1.ch1[i]? := by
      intro i hi; rw [f3b, Array.getElem?_setIfInBounds]; simp; omega
    refine ⟨by omega, by omega, by rw [b3, f3a, a3, f1a]; simp, by rw [b4, f3b]; simp; rw [a4, f1b],
      by rw [b5, f3c, a5, f1c], ?_, ?_, ⟨?_, ?_, ?_, ?_⟩, ?_⟩
    · intro i hi
      have h2 := b6 i (by omega)
      have h1 := a6 i (by omega)
      rw [h2.1, h2.2, f3a, c1 i (by omega), h1.1, h1.2, c0 i (by omega), f1b]
      exact ⟨rfl, rfl⟩
    · intro i hi
      rw [b7 i (by omega), f3c, a7 i (by omega), f1c]
    · rw [(b6 k (by omega)).1, f3a, (a6 k (by omega)).1, f1a, Array.getElem?_setIfInBounds]
      simp [hk]
    · rw [(b6 k (by omega)).2, f3b, Array.getElem?_setIfInBounds]
      have : k < R1.1.ch1.size := by rw [a4, f1b]; omega
      simp [this]; omega
    · refine a8.congr ?_
      intro i h1 h2
      have h := b6 i (by omega)
      rw [h.1, h.2, f3a, c1 i (by omega)]
      exact ⟨rfl, rfl⟩
    · exact b8
    · intro j hj
      have hl := l.length_flatten_leaves
      by_cases hjl : j < l.size
      · rw [b7 (s + j) (by omega), f3c, a9 j hjl, List.flatten_append, List.getElem?_append_left (by omega)]
      · have := b9 (j - l.size) (by omega)
        rw [List.flatten_append, List.getElem?_append_right (by omega), hl, ← this]
        congr 1; omega
/-! ### routing -/
theorem route_leaf_step {ch0 ch1 : Array Int} {side : Nat → Nat → Bool} {fuel step node : Nat} {c0 c1 : Int}
    (h0 : ch0[node]? = some c0) (h1 : ch1[node]? = some c1) (hc : ¬ c0 > 0) :
    route ch0 ch1 side (fuel + 1) step node = some (node, -c0, -c1) := by
  simp [route, h0, h1, hc]

theorem route_inner_step {ch0 ch1 : Array Int} {side : Nat → Nat → Bool} {fuel step node : Nat} {c0 c1 : Int}
    (h0 : ch0[node]? = some c0) (h1 : ch1[node]? = some c1) (hc : c0 > 0)
    (hn : ¬ (if side step node then c1 else c0) < 0) :
    route ch0 ch1 side (fuel + 1) step node =
      route ch0 ch1 side fuel (step + 1) (if side step node then c1 else c0).toNat := by
  simp only [route, h0, h1, hc, if_true, hn, if_false]

theorem route_laid (side : Nat → Nat → Bool) {ch0 ch1 : Array Int} {t : Tree} {k s : Nat}
    (h : Laid ch0 ch1 t k s) (fuel step : Nat) (hf : t.depth < fuel) :
    ∃ node a b : Nat, route ch0 ch1 side fuel step k = some (node, (a:Int), (b:Int)) ∧
      (a, b) ∈ ranges t.leaves s ∧ k ≤ node ∧ node < k + t.numNodes ∧
      ch0[node]? = some (-(a:Int)) ∧ ch1[node]? = some (-(b:Int)) := by
  induction t generalizing k s fuel step with
  | leaf idx =>
    obtain ⟨f, rfl⟩ : ∃ f, fuel = f + 1 := ⟨fuel - 1, by omega⟩
    simp only [Laid] at h
    refine ⟨k, s, s + idx.length, ?_, by simp [Tree.leaves, ranges], by omega, by simp [Tree.numNodes], h.1, h.2⟩
    rw [route_leaf_step h.1 h.2 (by omega), Int.neg_neg, Int.neg_neg]
  | node l r ihl ihr =>
    obtain ⟨f, rfl⟩ : ∃ f, fuel = f + 1 := ⟨fuel - 1, by omega⟩
    simp only [Laid] at h
    obtain ⟨g0, g1, gl, gr⟩ := h
    simp only [Tree.depth] at hf
    have hpos : ((k:Int) + 1 > 0) := by omega
    cases hs : side step k with
    | false =>
      obtain ⟨node, a, b, q1, q2, q3, q4, q5⟩ := ihl gl f (step + 1) (by omega)
      refine ⟨node, a, b, ?_, by simp [Tree.leaves, ranges_append, q2], by omega, by simp only [Tree.numNodes]; omega, q5⟩
      rw [route_inner_step g0 g1 hpos (by rw [hs]; simp; omega), hs]
      have ht : ((k:Int) + 1).toNat = k + 1 := by omega
      simp only [Bool.false_eq_true, if_false, ht, q1]
    | true =>
      obtain ⟨node, a, b, q1, q2, q3, q4, q5⟩ := ihr gr f (step + 1) (by omega)
      refine ⟨node, a, b, ?_, by simp [Tree.leaves, ranges_append, l.length_flatten_leaves, q2], by omega,
        by simp only [Tree.numNodes]; omega, q5⟩
      rw [route_inner_step g0 g1 hpos (by rw [hs]; simp; omega), hs]
      simp only [if_true, Int.toNat_natCast, q1]

/-! ### construction: sizes and depth; slices; the converted tree -/
theorem buildTree_leavesAt (o : Oracle) (ls d : Nat) (path : List Bool) (idx : List Int) (k : Nat) :
    ∀ p ∈ (buildTree o ls d path idx).leavesAt k, p.2.length ≤ ls ∨ p.1 = k + d := by
  induction d generalizing path idx k with
  | zero => simp [buildTree, Tree.leavesAt]
  | succ d ih =>
    unfold buildTree
    split
    · intro p hp
      simp only [Tree.leavesAt, List.mem_append] at hp
      rcases hp with hp | hp
      · have := ih _ _ _ p hp; omega
      · have := ih _ _ _ p hp; omega
    · intro p hp
      simp only [Tree.leavesAt, List.mem_singleton] at hp
      subst hp; left; simp only; omega

theorem buildTree_depth (o : Oracle) (ls d : Nat) (path : List Bool) (idx : List Int) :
    (buildTree o ls d path idx).depth ≤ d := by
  induction d generalizing path idx with
  | zero => simp [buildTree, Tree.depth]
  | succ d ih =>
    unfold buildTree
    split
    · simp only [Tree.depth]
      have := ih (path ++ [false]) (splitBy (sides o path idx) idx).1
      have := ih (path ++ [true]) (splitBy (sides o path idx) idx).2
      omega
    · simp [Tree.depth]

theorem Tree.numNodes_le_pow (t : Tree) : t.numNodes + 1 ≤ 2 ^ (t.depth + 1) := by
  induction t with
  | leaf idx => simp [Tree.numNodes, Tree.depth]
  | node l r ihl ihr =>
    simp only [Tree.numNodes, Tree.depth]
    have h1 : 2 ^ (l.depth + 1) ≤ 2 ^ (max l.depth r.depth + 1) := Nat.pow_le_pow_right (by omega) (by omega)
    have h2 : 2 ^ (r.depth + 1) ≤ 2 ^ (max l.depth r.depth + 1) := Nat.pow_le_pow_right (by omega) (by omega)
    rw [Nat.pow_succ]
    omega

theorem Tree.size_eq_of_perm {t : Tree} {idx : List Int} (h : t.leaves.flatten.Perm idx) : t.size = idx.length := by
  rw [← t.length_flatten_leaves]; exact h.length_eq

theorem Tree.map_snd_leavesAt (t : Tree) (k : Nat) : (t.leavesAt k).map Prod.snd = t.leaves := by
  induction t generalizing k with
  | leaf idx => rfl
  | node l r ihl ihr => simp [Tree.leavesAt, Tree.leaves, ihl, ihr]

theorem getElem?_ranges {ls : List (List Int)} {s i : Nat} (hi : i < ls.length) :
    ∃ a b, (ranges ls s)[i]? = some (a, b) ∧ s ≤ a ∧ b = a + ls[i].length ∧ b ≤ s + ls.flatten.length ∧
      (ls.flatten.drop (a - s)).take (b - a) = ls[i] := by
  induction ls generalizing s i with
  | nil => simp at hi
  | cons x xs ih =>
    cases i with
    | zero =>
      refine ⟨s, s + x.length, rfl, by omega, rfl, by simp only [List.flatten_cons, List.length_append]; omega, ?_⟩
      simp
    | succ i =>
      obtain ⟨a, b, h0, h1, h2, h3, h4⟩ := ih (s := s + x.length) (i := i) (by simpa using hi)
      refine ⟨a, b, by simpa [ranges] using h0, by omega, by simpa using h2,
        by simp only [List.flatten_cons, List.length_append]; omega, ?_⟩
      rw [List.flatten_cons, List.drop_append, List.drop_eq_nil_of_le (by omega), List.nil_append]
      simp only [List.getElem_cons_succ]
      rw [← h4]; congr 2; omega

theorem pySlice_nat (arr : Array Int) (a b : Nat) (hab : a ≤ b) (hb : b ≤ arr.size) :
    pySlice arr (a : Int) (b : Int) = (arr.toList.drop a).take (b - a) := by
  have ha : pyNorm arr.size (a : Int) = a := by
    unfold pyNorm; rw [if_neg (by omega)]; simp; omega
  have hb' : pyNorm arr.size (b : Int) = b := by
    unfold pyNorm; rw [if_neg (by omega)]; simp; omega
  simp only [pySlice, ha, hb']

/-- everything `convert_tree_format` establishes, in one place -/
theorem convert_main (t : Tree) :
    (convertTreeFormat t t.size).ch0.size = t.numNodes ∧ (convertTreeFormat t t.size).ch1.size = t.numNodes ∧
    (convertTreeFormat t t.size).indices.toList = t.leaves.flatten ∧
    Laid (convertTreeFormat t t.size).ch0 (convertTreeFormat t t.size).ch1 t 0 0 := by
  have h := recursiveConvert_spec t ⟨Array.replicate t.numNodes (-1), Array.replicate t.numNodes (-1),
    Array.replicate t.size (-1)⟩ 0 0 (by simp) (by simp) (by simp)
  obtain ⟨_, _, a3, a4, a5, _, _, a8, a9⟩ := h
  refine ⟨by simpa [convertTreeFormat] using a3, by simpa [convertTreeFormat] using a4, ?_, a8⟩
  apply List.ext_getElem?
  intro j
  by_cases hj : j < t.size
  · have := a9 j hj
    simp only [Nat.zero_add] at this
    simpa [convertTreeFormat] using this
  · have e1 : (convertTreeFormat t t.size).indices.toList[j]? = none := by
      apply List.getElem?_eq_none
      simp only [convertTreeFormat, Array.length_toList]
      rw [a5]; simp; omega
    have e2 : t.leaves.flatten[j]? = none :=
      List.getElem?_eq_none (by rw [t.length_flatten_leaves]; omega)
    rw [e1, e2]

/-! ### linked form -/

/-- the `children` entries `make_*_tree` appends for `t` when `b` nodes are already in the lists -/
def postChildren : Tree → Nat → List (Int × Int)
  | .leaf _, _ => [(-1, -1)]
  | .node l r, b => postChildren l b ++ postChildren r (b + l.numNodes) ++
      [(((b + l.numNodes : Nat) : Int) - 1, ((b + l.numNodes + r.numNodes : Nat) : Int) - 1)]

/-- the `point_indices` entries appended for `t` -/
def postIndices : Tree → List (List Int)
  | .leaf idx => [idx]
  | .node l r => postIndices l ++ postIndices r ++ [[-1]]

theorem length_postIndices (t : Tree) : (postIndices t).length = t.numNodes := by
  induction t with
  | leaf idx => rfl
  | node l r ihl ihr => simp [postIndices, Tree.numNodes, ihl, ihr]; omega

theorem length_postChildren (t : Tree) (b : Nat) : (postChildren t b).length = t.numNodes := by
  induction t generalizing b with
  | leaf idx => rfl
  | node l r ihl ihr => simp [postChildren, Tree.numNodes, ihl, ihr]; omega

theorem linearize_toList (t : Tree) (L : Linked) :
    (linearize t L).children.toList = L.children.toList ++ postChildren t L.indices.size ∧
    (linearize t L).indices.toList = L.indices.toList ++ postIndices t := by
  induction t generalizing L with
  | leaf idx => simp [linearize, postChildren, postIndices]
  | node l r ihl ihr =>
    have h1 := ihl L
    have s1 : (linearize l L).indices.size = L.indices.size + l.numNodes := by
      have := congrArg List.length h1.2
      simpa [length_postIndices] using this
    have h2 := ihr (linearize l L)
    have s2 : (linearize r (linearize l L)).indices.size = L.indices.size + l.numNodes + r.numNodes := by
      have := congrArg List.length h2.2
      simp only [Array.length_toList, List.length_append, length_postIndices] at this
      omega
    simp only [linearize, Array.toList_push, h2.1, h2.2, h1.1, h1.2, s1, s2, postChildren, postIndices,
      List.append_assoc]
    exact ⟨trivial, trivial⟩

/-- the rows `get_leaves_from_tree` copies: `point_indices[i]` of every entry whose children test `== -1 or == -1` -/
def leafRowsOf (L : Linked) : List (List Int) :=
  ((L.children.toList.zip L.indices.toList).filter (fun p => p.1.1 == -1 || p.1.2 == -1)).map Prod.snd

theorem leafRows_post (t : Tree) (b : Nat) :
    (((postChildren t b).zip (postIndices t)).filter (fun p => p.1.1 == -1 || p.1.2 == -1)).map Prod.snd = t.leaves := by
  induction t generalizing b with
  | leaf idx => simp [postChildren, postIndices, Tree.leaves]
  | node l r ihl ihr =>
    have pl := l.numNodes_pos
    have pr := r.numNodes_pos
    simp only [postChildren, postIndices, Tree.leaves]
    rw [List.zip_append (by rw [List.length_append, List.length_append, length_postChildren, length_postChildren,
      length_postIndices, length_postIndices]),
      List.zip_append (by rw [length_postChildren, length_postIndices])]
    have e1 : ¬ (((b + l.numNodes : Nat) : Int) - 1 = -1) := by omega
    have e2 : ¬ (((b + l.numNodes + r.numNodes : Nat) : Int) - 1 = -1) := by omega
    simp [List.filter_append, ihl, ihr]
    omega

theorem and_of_or_post (t : Tree) (b : Nat) :
    ∀ c ∈ postChildren t b, (c.1 = -1 ∨ c.2 = -1) → (c.1 = -1 ∧ c.2 = -1) := by
  induction t generalizing b with
  | leaf idx => intro c hc; simp [postChildren] at hc; subst hc; simp
  | node l r ihl ihr =>
    intro c hc
    have pl := l.numNodes_pos
    have pr := r.numNodes_pos
    simp only [postChildren, List.mem_append, List.mem_singleton] at hc
    rcases hc with (hc | hc) | hc
    · exact ihl _ c hc
    · exact ihr _ c hc
    · subst hc; simp only; omega
/-- a leaf padded with `-1` to width `w` -/
def padRow (w : Nat) (row : List Int) : List Int := row ++ List.replicate (w - row.length) (-1)

theorem writeSlice_blank (w : Nat) (row : List Int) (h : row.length ≤ w) :
    (writeSlice (Array.replicate w (-1)) 0 row) = (padRow w row).toArray := by
  apply Array.ext'
  apply List.ext_getElem?
  intro i
  rw [Array.getElem?_toList, getElem?_writeSlice _ _ _ (by simp; omega)]
  simp only [padRow, Nat.zero_le, true_and, Nat.zero_add, Nat.sub_zero]
  by_cases hi : i < row.length
  · rw [if_pos hi, List.getElem?_append_left hi]
  · rw [if_neg hi, List.getElem?_append_right (by omega), Array.getElem?_replicate, List.getElem?_replicate]
    by_cases h2 : i < w
    · rw [if_pos h2, if_pos (by omega)]
    · rw [if_neg h2, if_neg (by omega)]

/-- one iteration of the fill loop of `get_leaves_from_tree`, on the optional row it copies -/
def stepRow (acc : Array (Array Int) × Nat) (o : Option (List Int)) : Array (Array Int) × Nat :=
  match o with
  | some row => (acc.1.modify acc.2 (fun r => writeSlice r 0 row), acc.2 + 1)
  | none => acc

theorem fold_stepRow (w N : Nat) (items : List (Option (List Int))) (done : List (List Int))
    (res : Array (Array Int)) (hsz : res.size = N)
    (hres : ∀ j, res[j]? = if j < done.length then (done[j]?).map (fun r => (padRow w r).toArray)
        else if j < N then some (Array.replicate w (-1)) else none)
    (hcount : done.length + (items.filterMap id).length ≤ N)
    (hw : ∀ row, some row ∈ items → row.length ≤ w) :
    (items.foldl stepRow (res, done.length)).2 = done.length + (items.filterMap id).length ∧
    (items.foldl stepRow (res, done.length)).1.size = N ∧
    ∀ j, (items.foldl stepRow (res, done.length)).1[j]? =
      if j < done.length + (items.filterMap id).length then
        ((done ++ items.filterMap id)[j]?).map (fun r => (padRow w r).toArray)
      else if j < N then some (Array.replicate w (-1)) else none := by
  induction items generalizing done res with
  | nil => simpa using ⟨hsz, hres⟩
  | cons o items ih =>
    cases o with
    | none =>
      have hfm : (none :: items).filterMap id = items.filterMap id := by simp
      simp only [List.foldl_cons, stepRow, hfm] at *
      exact ih done res hsz hres hcount (fun row h => hw row (by simp [h]))
    | some row =>
      have hfm : (some row :: items).filterMap id = row :: items.filterMap id := by simp
      simp only [List.foldl_cons, stepRow, hfm, List.length_cons] at *
      have hrow : row.length ≤ w := hw row (by simp)
      have := ih (done ++ [row]) (res.modify done.length (fun r => writeSlice r 0 row))
        (by simp [hsz]) ?_ (by simp; omega) (fun r h => hw r (by simp [h]))
      · simp only [List.length_append, List.length_singleton, List.append_assoc, List.singleton_append] at this
        refine ⟨by omega, this.2.1, ?_⟩
        intro j
        rw [this.2.2 j]
        have e : done.length + 1 + (items.filterMap id).length = done.length + ((items.filterMap id).length + 1) := by omega
        rw [e]
      · intro j
        rw [Array.getElem?_modify, hres j]
        simp only [List.length_append, List.length_singleton]
        by_cases hj : done.length = j
        · subst hj
          rw [if_pos rfl, if_neg (by omega), if_pos (by omega), if_pos (by omega)]
          simp [writeSlice_blank w row hrow]
        · rw [if_neg hj]
          by_cases hj2 : j < done.length
          · rw [if_pos hj2, if_pos (by omega), List.getElem?_append_left hj2]
          · rw [if_neg hj2, if_neg (show ¬ j < done.length + 1 by omega)]

/-- the optional row iteration `i` of the fill loop copies -/
def itemOf (p : (Int × Int) × List Int) : Option (List Int) :=
  if p.1.1 == -1 || p.1.2 == -1 then some p.2 else none

theorem filterMap_itemOf (l : List ((Int × Int) × List Int)) :
    (l.map itemOf).filterMap id = (l.filter (fun p => p.1.1 == -1 || p.1.2 == -1)).map Prod.snd := by
  induction l with
  | nil => rfl
  | cons p l ih =>
    by_cases h : (p.1.1 == -1 || p.1.2 == -1) = true
    · simp [itemOf, h, ← ih]
    · simp [itemOf, h, ← ih]

theorem getLeaves_eq_fold (L : Linked) (w : Nat) (hlen : L.children.size = L.indices.size) :
    getLeaves L w = (((L.children.toList.zip L.indices.toList).map itemOf).foldl stepRow
      (Array.replicate (L.children.toList.filter (fun c => c.1 == -1 && c.2 == -1)).length
        (Array.replicate w (-1)), 0)).1 := by
  have hmap : (L.children.toList.zip L.indices.toList).map itemOf =
      (List.range L.indices.size).map (fun i => itemOf (L.children.getD i (0, 0), L.indices.getD i [])) := by
    apply List.ext_getElem?
    intro i
    by_cases hi : i < L.indices.size
    · have h1 : L.children.toList[i]? = some (L.children.getD i (0, 0)) := by
        rw [Array.getElem?_toList, Array.getD_eq_getD_getElem?]
        have : i < L.children.size := by omega
        simp [this]
      have h2 : L.indices.toList[i]? = some (L.indices.getD i []) := by
        rw [Array.getElem?_toList, Array.getD_eq_getD_getElem?]
        simp [hi]
      have h3 : (L.children.toList.zip L.indices.toList)[i]? = some (L.children.getD i (0, 0), L.indices.getD i []) := by
        rw [List.getElem?_zip_eq_some]; exact ⟨h1, h2⟩
      simp [h3, hi]
    · rw [List.getElem?_eq_none (by simp; omega), List.getElem?_eq_none (by simp; omega)]
  rw [hmap, List.foldl_map]
  unfold getLeaves
  simp only
  congr 2
  funext acc i
  simp only [itemOf, stepRow]
  split <;> rfl

theorem getLeaves_spec (L : Linked) (w : Nat) (hlen : L.children.size = L.indices.size)
    (hH : ∀ c ∈ L.children.toList, (c.1 = -1 ∨ c.2 = -1) → (c.1 = -1 ∧ c.2 = -1))
    (hw : ∀ row ∈ leafRowsOf L, row.length ≤ w) :
    (getLeaves L w).toList = (leafRowsOf L).map (fun row => (padRow w row).toArray) := by
  have hN : (L.children.toList.filter (fun c => c.1 == -1 && c.2 == -1)).length = (leafRowsOf L).length := by
    have h1 : L.children.toList.filter (fun c => c.1 == -1 && c.2 == -1) =
        L.children.toList.filter (fun c => c.1 == -1 || c.2 == -1) := by
      apply List.filter_congr
      intro c hc
      have := hH c hc
      by_cases h1 : c.1 = -1 <;> by_cases h2 : c.2 = -1
      · simp [h1, h2]
      · exact absurd (this (Or.inl h1)).2 h2
      · exact absurd (this (Or.inr h2)).1 h1
      · have e1 : (c.1 == -1) = false := beq_eq_false_iff_ne.mpr h1
        have e2 : (c.2 == -1) = false := beq_eq_false_iff_ne.mpr h2
        rw [e1, e2]; rfl
    have h2 : L.children.toList.filter (fun c => c.1 == -1 || c.2 == -1) =
        ((L.children.toList.zip L.indices.toList).filter (fun p => p.1.1 == -1 || p.1.2 == -1)).map Prod.fst := by
      have hz : (L.children.toList.zip L.indices.toList).map Prod.fst = L.children.toList :=
        List.map_fst_zip (by simp; omega)
      conv => lhs; rw [← hz]
      rw [List.filter_map]
      rfl
    rw [h1, h2]
    simp [leafRowsOf]
  rw [getLeaves_eq_fold L w hlen, hN]
  have hf := filterMap_itemOf (L.children.toList.zip L.indices.toList)
  have hrows : ((L.children.toList.zip L.indices.toList).map itemOf).filterMap id = leafRowsOf L := hf
  have := fold_stepRow w (leafRowsOf L).length ((L.children.toList.zip L.indices.toList).map itemOf) []
    (Array.replicate (leafRowsOf L).length (Array.replicate w (-1))) (by simp)
    (by intro j; simp [Array.getElem?_replicate]) (by rw [hrows]; simp) ?_
  · obtain ⟨_, h2, h3⟩ := this
    simp only [List.length_nil, Nat.zero_add, hrows, List.nil_append] at h2 h3
    apply List.ext_getElem?
    intro j
    rw [Array.getElem?_toList, h3 j]
    by_cases hj : j < (leafRowsOf L).length
    · rw [if_pos hj]; simp
    · rw [if_neg hj, if_neg hj, List.getElem?_eq_none (by simp; omega)]
  · intro row hrow
    apply hw
    rw [← hrows]
    exact List.mem_filterMap.mpr ⟨some row, hrow, rfl⟩

/-! ### `max_leaf_size` -/
theorem foldl_maxLen (l : List (List Int)) (init : Nat) :
    init ≤ l.foldl (fun m p => if p.length > m then p.length else m) init ∧
    (∀ p ∈ l, p.length ≤ l.foldl (fun m p => if p.length > m then p.length else m) init) ∧
    (l.foldl (fun m p => if p.length > m then p.length else m) init = init ∨
      ∃ p ∈ l, l.foldl (fun m p => if p.length > m then p.length else m) init = p.length) := by
  induction l generalizing init with
  | nil => simp
  | cons x xs ih =>
    simp only [List.foldl_cons, List.mem_cons, forall_eq_or_imp, exists_eq_or_imp]
    obtain ⟨h1, h2, h3⟩ := ih (if x.length > init then x.length else init)
    by_cases hx : x.length > init
    · simp only [if_pos hx] at h1 h2 h3 ⊢
      refine ⟨by omega, ⟨h1, h2⟩, ?_⟩
      rcases h3 with h3 | ⟨p, hp, h3⟩
      · right; left; exact h3
      · right; right; exact ⟨p, hp, h3⟩
    · simp only [if_neg hx] at h1 h2 h3 ⊢
      refine ⟨h1, ⟨by omega, h2⟩, ?_⟩
      rcases h3 with h3 | ⟨p, hp, h3⟩
      · left; exact h3
      · right; right; exact ⟨p, hp, h3⟩

theorem mem_postIndices {t : Tree} {p : List Int} (h : p ∈ postIndices t) : p ∈ t.leaves ∨ p = [-1] := by
  induction t with
  | leaf idx => simp [postIndices, Tree.leaves] at *; exact Or.inl h
  | node l r ihl ihr =>
    simp only [postIndices, Tree.leaves, List.mem_append, List.mem_singleton] at *
    rcases h with (h | h) | h
    · rcases ihl h with h | h <;> simp [h]
    · rcases ihr h with h | h <;> simp [h]
    · simp [h]

theorem leaves_sub_postIndices {t : Tree} {p : List Int} (h : p ∈ t.leaves) : p ∈ postIndices t := by
  induction t with
  | leaf idx => simpa [postIndices, Tree.leaves] using h
  | node l r ihl ihr =>
    simp only [postIndices, Tree.leaves, List.mem_append, List.mem_singleton] at *
    rcases h with h | h
    · exact Or.inl (Or.inl (ihl h))
    · exact Or.inl (Or.inr (ihr h))

/-- everything about the linked form and the leaf array of a tree, in one place -/
theorem leafArray_main (t : Tree) (leafSize : Nat) :
    (linearize t {}).children.toList = postChildren t 0 ∧ (linearize t {}).indices.toList = postIndices t ∧
    leafRowsOf (linearize t {}) = t.leaves ∧
    leafSize ≤ treeLeafSize (linearize t {}) leafSize ∧
    (∀ leaf ∈ t.leaves, leaf.length ≤ treeLeafSize (linearize t {}) leafSize) ∧
    (treeLeafSize (linearize t {}) leafSize = leafSize ∨ treeLeafSize (linearize t {}) leafSize = 1 ∨
      ∃ leaf ∈ t.leaves, treeLeafSize (linearize t {}) leafSize = leaf.length) ∧
    (leafArray t leafSize).toList =
      t.leaves.map (fun row => (padRow (treeLeafSize (linearize t {}) leafSize) row).toArray) := by
  have hl := linearize_toList t {}
  have hc : (linearize t {}).children.toList = postChildren t 0 := by simpa using hl.1
  have hi : (linearize t {}).indices.toList = postIndices t := by simpa using hl.2
  have hrows : leafRowsOf (linearize t {}) = t.leaves := by
    simp only [leafRowsOf, hc, hi]; exact leafRows_post t 0
  have hfold : treeLeafSize (linearize t {}) leafSize =
      (postIndices t).foldl (fun m p => if p.length > m then p.length else m) leafSize := by
    simp only [treeLeafSize, ← hi, Array.foldl_toList]
  obtain ⟨f1, f2, f3⟩ := foldl_maxLen (postIndices t) leafSize
  rw [← hfold] at f1 f2 f3
  have hle : ∀ leaf ∈ t.leaves, leaf.length ≤ treeLeafSize (linearize t {}) leafSize :=
    fun leaf h => f2 leaf (leaves_sub_postIndices h)
  refine ⟨hc, hi, hrows, f1, hle, ?_, ?_⟩
  · rcases f3 with h | ⟨p, hp, h⟩
    · exact Or.inl h
    · rcases mem_postIndices hp with h' | h'
      · exact Or.inr (Or.inr ⟨p, h', h⟩)
      · subst h'; exact Or.inr (Or.inl (by simpa using h))
  · have hsz : (linearize t {}).children.size = (linearize t {}).indices.size := by
      have a := congrArg List.length hc
      have b := congrArg List.length hi
      simp only [Array.length_toList, length_postChildren, length_postIndices] at a b
      omega
    have := getLeaves_spec (linearize t {}) (treeLeafSize (linearize t {}) leafSize) hsz
      (by rw [hc]; exact and_of_or_post t 0) (by rw [hrows]; exact hle)
    rw [hrows] at this
    exact this

/-- every `children` entry of the linked form is the leaf mark `(-1, -1)` or a pair of earlier node
numbers `left < right` (so the three leaf tests the code uses — `[0] == -1 and [1] == -1`,
`[0] == -1 or [1] == -1`, `[0] < 0` — agree) -/
theorem postChildren_shape (t : Tree) (b : Nat) :
    ∀ c ∈ postChildren t b, c = (-1, -1) ∨
      ((b : Int) ≤ c.1 ∧ c.1 < c.2 ∧ c.2 + 1 < ((b + t.numNodes : Nat) : Int)) := by
  induction t generalizing b with
  | leaf idx => intro c hc; simp [postChildren] at hc; exact Or.inl hc
  | node l r ihl ihr =>
    intro c hc
    have pl := l.numNodes_pos
    have pr := r.numNodes_pos
    simp only [postChildren, List.mem_append, List.mem_singleton, Tree.numNodes] at hc ⊢
    rcases hc with (hc | hc) | hc
    · rcases ihl _ c hc with h | h
      · exact Or.inl h
      · right; omega
    · rcases ihr _ c hc with h | h
      · exact Or.inl h
      · right; omega
    · subst hc; right; simp only; omega

end Pynn.RP
