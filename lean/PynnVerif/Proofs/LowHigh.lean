import PynnVerif.Proofs.RowWise
import PynnVerif.Proofs.TopK

/-! # The high-memory application equals the low-memory one

`apply_graph_updates_high_memory` keeps, per row, a record `in_graph[r]` of every candidate that
was ever in the row and skips a push whose candidate is recorded.  A skipped push is one the heap
would have rejected: the candidate is still held (duplicate rejection), or it was evicted — when
it was the root — and the root only decreases, so its distance is `≥` the current root (far
rejection).  `InGraphInv` states exactly this; it needs the rows to be heaps that store true
distances (`HeapTruth`, the part of `GraphInv` used here).
-/
namespace Pynn
variable {P : Type} [LinearOrder P]

/-! ## the two invariants -/

/-- every row is a max-heap whose real entries carry their true distance (part of `GraphInv`) -/
def HeapTruth (dist : Nat → Nat → P) (g : Graph P) : Prop :=
  ∀ r row, g[r]? = some row →
    IsHeap row ∧ ∀ e ∈ row, 0 ≤ e.idx → e.prio = dist r e.idx.toNat

theorem GraphInv.heapTruth {top : P} {n k : Nat} {dist : Nat → Nat → P} {g : Graph P}
    (h : GraphInv top n k dist g) : HeapTruth dist g := by
  intro r row hr
  obtain ⟨hlt, rfl⟩ := Array.getElem?_eq_some_iff.mp hr
  exact ⟨h.heap r hlt, h.truth r hlt⟩

/-- every recorded real candidate of row `p` is held by the row or is at least as far as the
row's root -/
def InGraphInv (dist : Nat → Nat → P) (g : Graph P) (s : InGraph) : Prop :=
  s.size = g.size ∧
  ∀ p row, g[p]? = some row → ∀ q : Int, s.has p q = true → 0 ≤ q →
    (∃ e ∈ row, e.idx = q) ∨ ∀ hk : 0 < row.size, row[0].prio ≤ dist p q.toNat

/-! ## `InGraph` operations -/

theorem InGraph.has_iff (s : InGraph) (r : Nat) (x : Int) :
    s.has r x = true ↔ ∃ l, s[r]? = some l ∧ x ∈ l := by
  unfold InGraph.has
  cases h : s[r]? <;> simp

@[simp] theorem InGraph.add_size (s : InGraph) (r : Nat) (x : Int) : (s.add r x).size = s.size := by
  unfold InGraph.add; split <;> simp

theorem InGraph.has_add (s : InGraph) (r : Nat) (x : Int) (p : Nat) (q : Int) :
    (s.add r x).has p q = true ↔ s.has p q = true ∨ (p = r ∧ r < s.size ∧ q = x) := by
  rw [InGraph.has_iff, InGraph.has_iff]
  unfold InGraph.add
  split
  · rename_i h
    simp only [Array.getElem?_set]
    by_cases hpr : r = p
    · subst hpr
      simp only [↓reduceIte, Option.some.injEq, exists_eq_left', List.mem_cons,
        Array.getElem?_eq_getElem h, true_and, h]
      exact or_comm
    · have : ¬ p = r := fun e => hpr e.symm
      simp [hpr, this]
  · rename_i h
    simp only [iff_self_or]
    rintro ⟨_, h', _⟩
    exact absurd h' h

/-- the initial record holds exactly the row contents -/
theorem initInGraph_inv (dist : Nat → Nat → P) (g : Graph P) : InGraphInv dist g (initInGraph g) := by
  refine ⟨by simp [initInGraph], ?_⟩
  intro p row hp q hq _
  left
  obtain ⟨l, hl, hmem⟩ := (InGraph.has_iff _ _ _).mp hq
  simp only [initInGraph, Array.getElem?_map, hp, Option.map_some, Option.some.injEq] at hl
  subst hl
  obtain ⟨e, he, heq⟩ := List.mem_map.mp hmem
  exact ⟨e, Array.mem_toList_iff.mp he, heq⟩

/-! ## one push -/

theorem push_not_accept (c : Bool) (h : Row P) (p : P) (n : Int) (f : Bool)
    (hrej : (push c h p n f).2 = false) : push c h p n f = (h, false) :=
  Prod.ext (push_reject c h p n f hrej) hrej

/-- a candidate at least as far as the root is rejected -/
theorem push_far (c : Bool) (h : Row P) (p : P) (n : Int) (f : Bool)
    (hfar : ∀ hk : 0 < h.size, h[0].prio ≤ p) : push c h p n f = (h, false) := by
  apply push_not_accept
  cases hacc : (push c h p n f).2
  · rfl
  · obtain ⟨hk, hlt, _⟩ := (push_accept_iff c h p n f).mp hacc
    exact absurd (hfar hk) (not_le.mpr hlt)

/-- an accepted push never raises the root -/
theorem push_root_le (c : Bool) (h : Row P) (p : P) (n : Int) (f : Bool) (hh : IsHeap h)
    (hacc : (push c h p n f).2 = true) (hk : 0 < h.size) (hk' : 0 < (push c h p n f).1.size) :
    ((push c h p n f).1[0]).prio ≤ h[0].prio := by
  obtain ⟨_, hlt, _⟩ := (push_accept_iff c h p n f).mp hacc
  have hmem := mem_of_perm_set (x := ⟨p, n, f⟩) hk (push_perm c h p n f hacc)
  rcases (hmem _).mp (Array.getElem_mem hk') with heq | ⟨j, hj, _, heq⟩
  · rw [heq]; exact le_of_lt hlt
  · rw [← heq]; exact isHeap_root_max h hh j hj

/-- **A recorded candidate is rejected**: the high-memory path loses nothing by skipping it. -/
theorem pushInto_recorded {dist : Nat → Nat → P} {g : Graph P} {s : InGraph}
    (hI : InGraphInv dist g s) (p q : Nat) (hrec : s.has p (q : Int) = true) (f : Bool) :
    pushInto g p (dist p q) (q : Int) f = (g, false) := by
  by_cases hp : p < g.size
  · rw [pushInto_of_lt g p _ _ f hp]
    have hpush : pushFlagged g[p] (dist p q) (q : Int) f = (g[p], false) := by
      rcases hI.2 p g[p] (Array.getElem?_eq_getElem hp) q hrec (Int.natCast_nonneg q) with hheld | hfar
      · exact push_dup _ _ _ _ hheld
      · exact push_far _ _ _ _ _ (by simpa using hfar)
    rw [hpush]
    simp
  · exact pushInto_of_size_le g p _ _ f (by omega)

/-- a truthful push keeps `HeapTruth` -/
theorem pushInto_heapTruth {dist : Nat → Nat → P} {g : Graph P} (hH : HeapTruth dist g)
    (r q : Nat) (d : P) (hd : d = dist r q) (f : Bool) :
    HeapTruth dist (pushInto g r d (q : Int) f).1 := by
  intro i row' hi
  rw [pushInto_row?] at hi
  split at hi
  · rename_i hir
    subst hir
    cases hrow : g[i]? with
    | none => rw [hrow] at hi; simp at hi
    | some row =>
      rw [hrow] at hi
      simp only [Option.map_some, Option.some.injEq] at hi
      subst hi
      obtain ⟨hheap, htruth⟩ := hH i row hrow
      refine ⟨push_heap _ _ _ _ _ hheap, ?_⟩
      cases hacc : (pushFlagged row d (q : Int) f).2
      · rw [push_reject true row d q f hacc]; exact htruth
      · obtain ⟨hk, _, _⟩ := (push_accept_iff true row d q f).mp hacc
        have hmem := mem_of_perm_set (x := ⟨d, (q : Int), f⟩) hk (push_perm true row d q f hacc)
        intro e he hidx
        rcases (hmem e).mp he with rfl | ⟨j, hj, _, rfl⟩
        · simpa using hd
        · exact htruth _ (Array.getElem_mem hj) hidx
  · exact hH i row' hi

/-- **After an accepted push and the record update the record invariant still holds**: the evicted
entry was the root, its (true) distance is the old root `≥` the new root; roots never increase;
other rows are untouched. -/
theorem pushInto_inGraphInv_accept {dist : Nat → Nat → P} {g : Graph P} {s : InGraph}
    (hH : HeapTruth dist g) (hI : InGraphInv dist g s) (r q : Nat) (d : P)
    (hacc : (pushInto g r d (q : Int) true).2 = true) :
    InGraphInv dist (pushInto g r d (q : Int) true).1 (s.add r (q : Int)) := by
  refine ⟨by simp [hI.1], ?_⟩
  intro p row' hp q' hq' hq0
  rw [pushInto_row?] at hp
  rw [InGraph.has_add] at hq'
  split at hp
  · rename_i hpr
    subst hpr
    cases hrow : g[p]? with
    | none => rw [hrow] at hp; simp at hp
    | some row =>
      rw [hrow] at hp
      simp only [Option.map_some, Option.some.injEq] at hp
      subst hp
      obtain ⟨hheap, htruth⟩ := hH p row hrow
      have hacc' : (pushFlagged row d (q : Int) true).2 = true := by
        rw [pushInto_snd, hrow] at hacc
        simpa using hacc
      obtain ⟨hk, _, _⟩ := (push_accept_iff true row d q true).mp hacc'
      have hmem := mem_of_perm_set (x := ⟨d, (q : Int), true⟩) hk (push_perm true row d q true hacc')
      have hroot := push_root_le true row d q true hheap hacc' hk
      rcases hq' with hold | ⟨_, _, rfl⟩
      · rcases hI.2 p row hrow q' hold hq0 with ⟨e, he, heq⟩ | hfar
        · obtain ⟨i, hi, rfl⟩ := Array.mem_iff_getElem.mp he
          by_cases hi0 : i = 0
          · subst hi0
            right
            intro hk'
            have := htruth row[0] he (by omega)
            rw [heq] at this
            rw [← this]
            exact hroot hk'
          · left
            exact ⟨row[i], (hmem _).mpr (Or.inr ⟨i, hi, by omega, rfl⟩), heq⟩
        · right
          intro hk'
          exact le_trans (hroot hk') (hfar hk)
      · left
        exact ⟨⟨d, (q : Int), true⟩, (hmem _).mpr (Or.inl rfl), rfl⟩
  · rename_i hpr
    rcases hq' with hold | ⟨h1, _, _⟩
    · exact hI.2 p row' hp q' hold hq0
    · exact absurd h1 hpr

/-! ## the guarded push of the high-memory path -/

/-- `if q not in in_graph[r]: (push; if accepted: count, record)` -/
def gpush (acc : (Graph P × Nat) × InGraph) (r : Nat) (d : P) (q : Int) : (Graph P × Nat) × InGraph :=
  if acc.2.has r q then acc else
    let res := pushInto acc.1.1 r d q true
    if res.2 then ((res.1, acc.1.2 + 1), acc.2.add r q) else ((res.1, acc.1.2), acc.2)

/-- the guarded push does what the unguarded counted push does, and keeps both invariants -/
theorem gpush_spec {dist : Nat → Nat → P} {g : Graph P} {s : InGraph} (c : Nat)
    (hH : HeapTruth dist g) (hI : InGraphInv dist g s) (r q : Nat) (d : P) (hd : d = dist r q) :
    (gpush ((g, c), s) r d (q : Int)).1 = stepC (g, c) (r, d, (q : Int)) ∧
    HeapTruth dist (gpush ((g, c), s) r d (q : Int)).1.1 ∧
    InGraphInv dist (gpush ((g, c), s) r d (q : Int)).1.1 (gpush ((g, c), s) r d (q : Int)).2 := by
  unfold gpush
  simp only
  by_cases hrec : s.has r (q : Int) = true
  · rw [if_pos hrec]
    subst hd
    simp only [stepC, pushInto_recorded hI r q hrec true]
    exact ⟨by simp, hH, hI⟩
  · rw [if_neg hrec]
    cases hacc : (pushInto g r d (q : Int) true).2
    · simp only [Bool.false_eq_true, ↓reduceIte, stepC, hacc, Nat.add_zero, true_and]
      rw [pushInto_reject g r d q true hacc]
      exact ⟨hH, hI⟩
    · simp only [↓reduceIte, stepC, hacc, true_and]
      exact ⟨pushInto_heapTruth hH r q d hd true, pushInto_inGraphInv_accept hH hI r q d hacc⟩

/-! ## `applyHigh` -/

/-- the loop body of `apply_graph_updates_high_memory` -/
def highBody (acc : (Graph P × Nat) × InGraph) (u : Upd P) : (Graph P × Nat) × InGraph :=
  let g := acc.1.1; let c := acc.1.2; let s := acc.2
  let p : Int := u.p; let q : Int := u.q
  if s.has u.p q && s.has u.q p then acc else
    let acc1 : (Graph P × Nat) × InGraph :=
      if s.has u.p q then acc else
        let r := pushInto g u.p u.d q true
        if r.2 then ((r.1, c + 1), s.add u.p q) else ((r.1, c), s)
    let g := acc1.1.1; let c := acc1.1.2; let s := acc1.2
    if u.p = u.q || s.has u.q p then acc1 else
      let r := pushInto g u.q u.d p true
      if r.2 then ((r.1, c + 1), s.add u.q p) else ((r.1, c), s)

theorem applyHigh_eq_foldl (g : Graph P) (ups : List (Upd P)) (s : InGraph) :
    applyHigh g ups s = ups.foldl highBody ((g, 0), s) := rfl

/-- the body is two guarded pushes — one for the self pair -/
theorem highBody_eq (acc : (Graph P × Nat) × InGraph) (u : Upd P) :
    highBody acc u =
      if u.p = u.q then gpush acc u.p u.d (u.q : Int)
      else gpush (gpush acc u.p u.d (u.q : Int)) u.q u.d (u.p : Int) := by
  obtain ⟨p, q, d⟩ := u
  simp only
  by_cases hpq : p = q
  · subst hpq
    cases hA : acc.2.has p (p : Int) <;> simp [highBody, gpush, hA]
  · rw [if_neg hpq]
    cases hA : acc.2.has p (q : Int)
    · simp [highBody, gpush, hA, hpq]
    · cases hB : acc.2.has q (p : Int) <;> simp [highBody, gpush, hA, hB, hpq]

theorem stepC_twice (acc : Graph P × Nat) (x : Nat × P × Int) :
    stepC (stepC acc x) x = stepC acc x := by
  simp [stepC, pushInto_twice]

/-- one update: the high-memory body equals the two unguarded counted pushes -/
theorem highBody_spec {dist : Nat → Nat → P} (hsymm : ∀ a b, dist a b = dist b a)
    {g : Graph P} {s : InGraph} (c : Nat) (hH : HeapTruth dist g) (hI : InGraphInv dist g s)
    (u : Upd P) (hu : u.d = dist u.p u.q) :
    (highBody ((g, c), s) u).1 = stepC (stepC (g, c) (u.p, u.d, (u.q : Int))) (u.q, u.d, (u.p : Int)) ∧
    HeapTruth dist (highBody ((g, c), s) u).1.1 ∧
    InGraphInv dist (highBody ((g, c), s) u).1.1 (highBody ((g, c), s) u).2 := by
  rw [highBody_eq]
  by_cases hpq : u.p = u.q
  · rw [if_pos hpq]
    obtain ⟨h1, h2, h3⟩ := gpush_spec c hH hI u.p u.q u.d hu
    refine ⟨?_, h2, h3⟩
    rw [h1, ← hpq, stepC_twice]
  · rw [if_neg hpq]
    obtain ⟨h1, h2, h3⟩ := gpush_spec c hH hI u.p u.q u.d hu
    rcases hacc : gpush ((g, c), s) u.p u.d (u.q : Int) with ⟨⟨g1, c1⟩, s1⟩
    rw [hacc] at h1 h2 h3
    simp only at h1 h2 h3
    obtain ⟨k1, k2, k3⟩ := gpush_spec c1 h2 h3 u.q u.p u.d (by rw [hu, hsymm])
    rw [← h1]
    exact ⟨k1, k2, k3⟩

theorem foldl_highBody_spec {dist : Nat → Nat → P} (hsymm : ∀ a b, dist a b = dist b a)
    (ups : List (Upd P)) (hT : Truthful dist ups) (g : Graph P) (c : Nat) (s : InGraph)
    (hH : HeapTruth dist g) (hI : InGraphInv dist g s) :
    (ups.foldl highBody ((g, c), s)).1 = (pushesOf ups).foldl stepC (g, c) ∧
    HeapTruth dist (ups.foldl highBody ((g, c), s)).1.1 ∧
    InGraphInv dist (ups.foldl highBody ((g, c), s)).1.1 (ups.foldl highBody ((g, c), s)).2 := by
  induction ups generalizing g c s with
  | nil => exact ⟨rfl, hH, hI⟩
  | cons u ups ih =>
    rw [List.foldl_cons, pushesOf_cons, List.foldl_cons, List.foldl_cons]
    obtain ⟨h1, h2, h3⟩ := highBody_spec hsymm c hH hI u (hT u (by simp))
    rcases hacc : highBody ((g, c), s) u with ⟨⟨g1, c1⟩, s1⟩
    rw [hacc] at h1 h2 h3
    simp only at h1 h2 h3
    rw [← h1]
    exact ih (fun v hv => hT v (List.mem_cons_of_mem _ hv)) g1 c1 s1 h2 h3

/-- **High-memory application = sequential application** (graph and change count), and both
invariants hold afterwards. -/
theorem applyHigh_eq_applySeq {dist : Nat → Nat → P} (hsymm : ∀ a b, dist a b = dist b a)
    (g : Graph P) (ups : List (Upd P)) (s : InGraph) (hH : HeapTruth dist g)
    (hI : InGraphInv dist g s) (hT : Truthful dist ups) :
    (applyHigh g ups s).1 = applySeq g ups ∧
    HeapTruth dist (applyHigh g ups s).1.1 ∧
    InGraphInv dist (applyHigh g ups s).1.1 (applyHigh g ups s).2 := by
  rw [applyHigh_eq_foldl]
  exact foldl_highBody_spec hsymm ups hT g 0 s hH hI

/-- **High-memory application = low-memory application with any positive thread count.** -/
theorem applyHigh_eq_applyLow_ht {dist : Nat → Nat → P} (hsymm : ∀ a b, dist a b = dist b a)
    (T : Nat) (hT : 0 < T) (g : Graph P) (ups : List (Upd P)) (s : InGraph)
    (hH : HeapTruth dist g) (hI : InGraphInv dist g s) (hTr : Truthful dist ups) :
    (applyHigh g ups s).1 = applyLow T g ups ∧
    HeapTruth dist (applyHigh g ups s).1.1 ∧
    InGraphInv dist (applyHigh g ups s).1.1 (applyHigh g ups s).2 := by
  rw [applyLow_eq_applySeq T hT]
  exact applyHigh_eq_applySeq hsymm g ups s hH hI hTr

/-! ## flag-only changes (`new_build_candidates`) keep both invariants -/

/-- `g'` is `g` with every entry mapped by a function that keeps index and priority -/
def SameKeys (g g' : Graph P) : Prop :=
  g'.size = g.size ∧
  ∀ i : Nat, ∃ f : Entry P → Entry P, (∀ e, (f e).idx = e.idx ∧ (f e).prio = e.prio) ∧
    g'[i]? = g[i]?.map (fun (row : Row P) => row.map f)

theorem isHeap_map (row : Row P) (f : Entry P → Entry P) (hf : ∀ e, (f e).idx = e.idx ∧ (f e).prio = e.prio)
    (h : IsHeap row) : IsHeap (row.map f) := by
  intro j hj hj0
  simp only [Array.size_map] at hj
  simp only [Array.getElem_map, (hf _).2]
  exact h j hj hj0

theorem HeapTruth.sameKeys {dist : Nat → Nat → P} {g g' : Graph P} (hk : SameKeys g g')
    (hH : HeapTruth dist g) : HeapTruth dist g' := by
  intro r row' hr
  obtain ⟨f, hf, hfr⟩ := hk.2 r
  rw [hfr] at hr
  cases hrow : g[r]? with
  | none => rw [hrow] at hr; simp at hr
  | some row =>
    rw [hrow] at hr
    simp only [Option.map_some, Option.some.injEq] at hr
    subst hr
    obtain ⟨hheap, htruth⟩ := hH r row hrow
    refine ⟨isHeap_map row f hf hheap, ?_⟩
    intro e he hidx
    obtain ⟨e0, he0, rfl⟩ := Array.mem_map.mp he
    rw [(hf e0).1] at hidx ⊢
    rw [(hf e0).2]
    exact htruth e0 he0 hidx

theorem InGraphInv.sameKeys {dist : Nat → Nat → P} {g g' : Graph P} {s : InGraph}
    (hk : SameKeys g g') (hI : InGraphInv dist g s) : InGraphInv dist g' s := by
  refine ⟨by rw [hI.1, hk.1], ?_⟩
  intro p row' hp q hq hq0
  obtain ⟨f, hf, hfr⟩ := hk.2 p
  rw [hfr] at hp
  cases hrow : g[p]? with
  | none => rw [hrow] at hp; simp at hp
  | some row =>
    rw [hrow] at hp
    simp only [Option.map_some, Option.some.injEq] at hp
    subst hp
    rcases hI.2 p row hrow q hq hq0 with ⟨e, he, heq⟩ | hfar
    · left
      exact ⟨f e, Array.mem_map.mpr ⟨e, he, rfl⟩, by rw [(hf e).1, heq]⟩
    · right
      intro hk'
      simp only [Array.size_map] at hk'
      simp only [Array.getElem_map, (hf _).2]
      exact hfar hk'

section cands
variable {C : Type}

omit [LinearOrder P] in
theorem clearFlags_sameKeys (g : Graph P) (newC : Cands C) : SameKeys g (clearFlags g newC) := by
  refine ⟨by simp [clearFlags], ?_⟩
  intro i
  unfold clearFlags
  rw [Array.getElem?_mapIdx]
  cases newC[i]? with
  | none => exact ⟨id, fun e => ⟨rfl, rfl⟩, by simp⟩
  | some crow =>
    refine ⟨fun e => if crow.any (fun c => c.idx == e.idx) then { e with flag := false } else e, ?_, rfl⟩
    intro e
    dsimp only
    split <;> exact ⟨rfl, rfl⟩

end cands

/-! ## the local join emits truthful updates -/

omit [LinearOrder P] in
theorem joinUpdates_go_truthful (dist : Nat → Nat → P) (test : Nat → Nat → Option (Upd P))
    (htest : ∀ p q u, test p q = some u → u.d = dist u.p u.q) (oldRow l : List Int) :
    ∀ u ∈ joinUpdates.go oldRow test l, u.d = dist u.p u.q := by
  induction l with
  | nil => intro u hu; simp [joinUpdates.go] at hu
  | cons pj rest ih =>
    intro u hu
    simp only [joinUpdates.go] at hu
    split at hu
    · exact ih u hu
    · simp only [List.mem_append, List.mem_filterMap] at hu
      rcases hu with (⟨a, _, ha⟩ | ⟨a, _, ha⟩) | hu
      · exact htest _ _ _ ha
      · exact htest _ _ _ ha
      · exact ih u hu

theorem joinUpdates_truthful' (thr : Nat → P) (dist : Nat → Nat → P) (newRow oldRow : List Int) :
    Truthful dist (joinUpdates thr dist newRow oldRow) := by
  unfold joinUpdates
  apply joinUpdates_go_truthful
  intro p q u hu
  simp only at hu
  split at hu
  · cases hu; rfl
  · cases hu

omit [LinearOrder P] in
theorem truthful_flatMap {α : Type} (dist : Nat → Nat → P) (l : List α) (f : α → List (Upd P))
    (h : ∀ a ∈ l, Truthful dist (f a)) : Truthful dist (l.flatMap f) := by
  intro u hu
  obtain ⟨a, ha, hua⟩ := List.mem_flatMap.mp hu
  exact h a ha u hua

/-! ## one iteration: `processBlocks` -/

/-- the body of the block loop of `processBlocks` -/
def blockStep (top : P) (dist : Nat → Nat → P) (cfg : Cfg) (acc : (Graph P × Nat) × InGraph)
    (block : List (List Int × List Int)) : (Graph P × Nat) × InGraph :=
  let g := acc.1.1
  let ups := block.flatMap (fun no => joinUpdates (threshold top g) dist no.1 no.2)
  if cfg.lowMemory then
    let r := applyLow cfg.nThreads g ups
    ((r.1, acc.1.2 + r.2), acc.2)
  else
    let r := applyHigh g ups acc.2
    ((r.1.1, acc.1.2 + r.1.2), r.2)

theorem processBlocks_eq_foldl (top : P) (dist : Nat → Nat → P) (cfg : Cfg) (g : Graph P)
    (newC oldC : List (List Int)) (s : InGraph) :
    processBlocks top dist cfg g newC oldC s =
      (chunks cfg.blockSize (newC.zip oldC)).foldl (blockStep top dist cfg) ((g, 0), s) := rfl

theorem blockStep_low_high (top : P) {dist : Nat → Nat → P} (hsymm : ∀ a b, dist a b = dist b a)
    (cfg : Cfg) (hT : 0 < cfg.nThreads) (g : Graph P) (c : Nat) (sL s : InGraph)
    (hH : HeapTruth dist g) (hI : InGraphInv dist g s) (block : List (List Int × List Int)) :
    blockStep top dist { cfg with lowMemory := true } ((g, c), sL) block =
      ((blockStep top dist { cfg with lowMemory := false } ((g, c), s) block).1, sL) ∧
    HeapTruth dist (blockStep top dist { cfg with lowMemory := false } ((g, c), s) block).1.1 ∧
    InGraphInv dist (blockStep top dist { cfg with lowMemory := false } ((g, c), s) block).1.1
      (blockStep top dist { cfg with lowMemory := false } ((g, c), s) block).2 := by
  have hTr : Truthful dist (block.flatMap (fun no => joinUpdates (threshold top g) dist no.1 no.2)) :=
    truthful_flatMap dist _ _ (fun no _ => joinUpdates_truthful' _ _ _ _)
  obtain ⟨h1, h2, h3⟩ := applyHigh_eq_applyLow_ht hsymm cfg.nThreads hT g _ s hH hI hTr
  simp only [blockStep, ↓reduceIte, Bool.false_eq_true]
  refine ⟨?_, h2, h3⟩
  rw [← h1]

theorem foldl_blockStep_low_high (top : P) {dist : Nat → Nat → P} (hsymm : ∀ a b, dist a b = dist b a)
    (cfg : Cfg) (hT : 0 < cfg.nThreads) (blocks : List (List (List Int × List Int)))
    (g : Graph P) (c : Nat) (sL s : InGraph) (hH : HeapTruth dist g) (hI : InGraphInv dist g s) :
    blocks.foldl (blockStep top dist { cfg with lowMemory := true }) ((g, c), sL) =
      ((blocks.foldl (blockStep top dist { cfg with lowMemory := false }) ((g, c), s)).1, sL) ∧
    HeapTruth dist (blocks.foldl (blockStep top dist { cfg with lowMemory := false }) ((g, c), s)).1.1 ∧
    InGraphInv dist (blocks.foldl (blockStep top dist { cfg with lowMemory := false }) ((g, c), s)).1.1
      (blocks.foldl (blockStep top dist { cfg with lowMemory := false }) ((g, c), s)).2 := by
  induction blocks generalizing g c s with
  | nil => exact ⟨rfl, hH, hI⟩
  | cons b blocks ih =>
    rw [List.foldl_cons, List.foldl_cons]
    obtain ⟨h1, h2, h3⟩ := blockStep_low_high top hsymm cfg hT g c sL s hH hI b
    rw [h1]
    rcases hacc : blockStep top dist { cfg with lowMemory := false } ((g, c), s) b with ⟨⟨g1, c1⟩, s1⟩
    rw [hacc] at h2 h3
    exact ih g1 c1 s1 h2 h3

/-- one iteration's local join: same graph and change count in both modes; the low-memory mode
leaves its (unused) record untouched; the invariants hold afterwards -/
theorem processBlocks_low_high (top : P) {dist : Nat → Nat → P} (hsymm : ∀ a b, dist a b = dist b a)
    (cfg : Cfg) (hT : 0 < cfg.nThreads) (newC oldC : List (List Int))
    (g : Graph P) (sL s : InGraph) (hH : HeapTruth dist g) (hI : InGraphInv dist g s) :
    processBlocks top dist { cfg with lowMemory := true } g newC oldC sL =
      ((processBlocks top dist { cfg with lowMemory := false } g newC oldC s).1, sL) ∧
    HeapTruth dist (processBlocks top dist { cfg with lowMemory := false } g newC oldC s).1.1 ∧
    InGraphInv dist (processBlocks top dist { cfg with lowMemory := false } g newC oldC s).1.1
      (processBlocks top dist { cfg with lowMemory := false } g newC oldC s).2 := by
  rw [processBlocks_eq_foldl, processBlocks_eq_foldl]
  exact foldl_blockStep_low_high top hsymm cfg hT _ g 0 sL s hH hI

/-! ## the iteration loop -/

section loop
variable {C : Type} [LE C] [LT C] [DecidableLE C] [DecidableLT C]

omit [LinearOrder P] in
theorem newBuildCandidates_snd_clearFlags [LE P] [LT P] [DecidableLE P] [DecidableLT P]
    (ctop : C) (draw : RngState → C × RngState) (g : Graph P) (maxCand : Nat)
    (rng : RngState) (T : Nat) :
    ∃ nc : Cands C, (newBuildCandidates ctop draw g maxCand rng T).2 = clearFlags g nc := by
  unfold newBuildCandidates
  simp only
  exact ⟨_, rfl⟩

/-- **The iteration loop does the same in both modes.**  The low-memory run carries an unused
record `sL`; the high-memory run carries `s` with `InGraphInv`. -/
theorem descentLoop_low_high (top : P) (ctop : C) (draw : RngState → C × RngState)
    {dist : Nat → Nat → P} (hsymm : ∀ a b, dist a b = dist b a) (cfg : Cfg) (hT : 0 < cfg.nThreads)
    (stop : Nat → Bool) (rng : RngState) (it : Nat) (g : Graph P) (sL s : InGraph)
    (hH : HeapTruth dist g) (hI : InGraphInv dist g s) :
    descentLoop top ctop draw dist { cfg with lowMemory := true } stop rng it g sL =
      descentLoop top ctop draw dist { cfg with lowMemory := false } stop rng it g s := by
  induction it generalizing g sL s with
  | zero => simp [descentLoop]
  | succ it ih =>
    simp only [descentLoop]
    have hr := newBuildCandidates_snd_clearFlags ctop draw g cfg.maxCand rng cfg.nThreads
    generalize newBuildCandidates ctop draw g cfg.maxCand rng cfg.nThreads = r at hr ⊢
    obtain ⟨nc, hnc⟩ := hr
    have hk := clearFlags_sameKeys g nc
    rw [← hnc] at hk
    obtain ⟨e1, e2, e3⟩ := processBlocks_low_high top hsymm cfg hT r.1.1 r.1.2 r.2 sL s
      (hH.sameKeys hk) (hI.sameKeys hk)
    rw [e1]
    simp only
    split
    · rfl
    · exact ih _ _ _ e2 e3

end loop

/-! ## the initialisations establish `HeapTruth` -/

theorem foldl_preserves {α β : Type} (I : β → Prop) (f : β → α → β) (l : List α) (b : β) (hb : I b)
    (hf : ∀ b a, I b → I (f b a)) : I (l.foldl f b) := by
  induction l generalizing b with
  | nil => exact hb
  | cons a l ih => exact ih _ (hf b a hb)

theorem mkGraph_heapTruth (top : P) (n k : Nat) (dist : Nat → Nat → P) :
    HeapTruth dist (mkGraph top n k) := by
  intro r row hr
  obtain ⟨_, hrow⟩ := Array.getElem?_eq_some_iff.mp hr
  simp only [mkGraph, Array.getElem_replicate] at hrow
  subst hrow
  refine ⟨(mkRow_inv top k (dist r)).heap, ?_⟩
  intro e he hidx
  simp only [mkRow, Array.mem_replicate] at he
  rw [he.2] at hidx
  simp at hidx

theorem applyBoth_heapTruth {dist : Nat → Nat → P} (hsymm : ∀ a b, dist a b = dist b a)
    {g : Graph P} (hH : HeapTruth dist g) (u : Upd P) (hu : u.d = dist u.p u.q) :
    HeapTruth dist (applyBoth g u) := by
  unfold applyBoth
  exact pushInto_heapTruth (pushInto_heapTruth hH u.p u.q u.d hu true) u.q u.p u.d
    (by rw [hu, hsymm]) true

theorem foldl_applyBoth_heapTruth {dist : Nat → Nat → P} (hsymm : ∀ a b, dist a b = dist b a)
    (ups : List (Upd P)) (hT : Truthful dist ups) (g : Graph P) (hH : HeapTruth dist g) :
    HeapTruth dist (ups.foldl applyBoth g) := by
  induction ups generalizing g with
  | nil => exact hH
  | cons u ups ih =>
    exact ih (fun v hv => hT v (List.mem_cons_of_mem _ hv)) _
      (applyBoth_heapTruth hsymm hH u (hT u (by simp)))

theorem leafUpdates_truthful' (thr : Nat → P) (dist : Nat → Nat → P) (row : List Int) :
    Truthful dist (leafUpdates thr dist row) := by
  intro u hu
  simp only [leafUpdates, List.mem_filterMap] at hu
  obtain ⟨pq, _, h⟩ := hu
  split at h
  · cases h; rfl
  · cases h

theorem initRpTree_heapTruth (top : P) {dist : Nat → Nat → P} (hsymm : ∀ a b, dist a b = dist b a)
    (g : Graph P) (hH : HeapTruth dist g) (leafArray : List (List Int)) (blockSize : Nat) :
    HeapTruth dist (initRpTree top dist g leafArray blockSize) := by
  unfold initRpTree
  apply foldl_preserves (fun g => HeapTruth dist g) _ _ _ hH
  intro g block hg
  exact foldl_applyBoth_heapTruth hsymm _
    (truthful_flatMap dist _ _ (fun row _ => leafUpdates_truthful' _ _ row)) g hg

theorem initRandom_heapTruth (k n : Nat) {dist : Nat → Nat → P} (hsymm : ∀ a b, dist a b = dist b a)
    (g : Graph P) (hH : HeapTruth dist g) (rng : RngState) :
    HeapTruth dist (initRandom k n dist g rng).1 := by
  unfold initRandom
  apply foldl_preserves (fun (acc : Graph P × RngState) => HeapTruth dist acc.1) _ _ _ hH
  intro acc i hacc
  dsimp only
  split
  · exact hacc
  · split
    · exact hacc
    · split
      · apply foldl_preserves (fun (acc : Graph P × RngState) => HeapTruth dist acc.1) _ _ _ hacc
        intro acc' _ hacc'
        dsimp only
        exact pushInto_heapTruth hacc' i _ _ (hsymm _ _) true
      · exact hacc

/-! ## the whole of `nn_descent` -/

section whole
variable {C : Type} [LE C] [LT C] [DecidableLE C] [DecidableLT C]

/-- `nn_descent` returns the same graph and generator state in both memory modes. -/
theorem nnDescent_low_high (top : P) (ctop : C) (draw : RngState → C × RngState)
    {dist : Nat → Nat → P} (hsymm : ∀ a b, dist a b = dist b a) (n : Nat) (cfg : Cfg)
    (hT : 0 < cfg.nThreads) (stop : Nat → Bool) (rng : RngState) (init : Option (Graph P))
    (hinit : ∀ g, init = some g → HeapTruth dist g) (rpTreeInit : Bool)
    (leafArray : List (List Int)) :
    nnDescent top ctop draw dist n { cfg with lowMemory := true } stop rng init rpTreeInit leafArray =
      nnDescent top ctop draw dist n { cfg with lowMemory := false } stop rng init rpTreeInit leafArray := by
  unfold nnDescent
  simp only [↓reduceIte, Bool.false_eq_true]
  have key : ∀ pr : Graph P × RngState, HeapTruth dist pr.1 →
      descentLoop top ctop draw dist { cfg with lowMemory := true } stop pr.2 cfg.nIters pr.1 #[] =
      descentLoop top ctop draw dist { cfg with lowMemory := false } stop pr.2 cfg.nIters pr.1
        (initInGraph pr.1) := fun pr hpr =>
    descentLoop_low_high top ctop draw hsymm cfg hT stop pr.2 cfg.nIters pr.1 _ _ hpr
      (initInGraph_inv dist pr.1)
  cases init with
  | some g0 =>
    simp only
    rw [key (g0, rng) (hinit g0 rfl)]
  | none =>
    simp only
    have hg : HeapTruth dist (if rpTreeInit = true then initRpTree top dist (mkGraph top n cfg.k) leafArray
        else mkGraph top n cfg.k) := by
      split
      · exact initRpTree_heapTruth top hsymm _ (mkGraph_heapTruth top n cfg.k dist) _ _
      · exact mkGraph_heapTruth top n cfg.k dist
    have := key _ (initRandom_heapTruth cfg.k n hsymm _ hg rng)
    rw [this]

end whole

end Pynn
