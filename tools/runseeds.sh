#!/bin/bash
# tools/runseeds.sh "<seeds>" [par]  : every claimed quick check under several VERIF_SEED values; prints only non-OK lines + a summary.
cd "$(dirname "$0")/.."
SEEDS=${1:-"1 2 3"}; PAR=${2:-3}
mkdir -p .cache/runseeds
ids=$(python3 -c "import json; print(' '.join(c['property_id'] for c in json.load(open('MANIFEST.json'))['checks']))")
for s in $SEEDS; do for i in $ids; do echo "$s $i"; done; done | xargs -P $PAR -L 1 sh -c 'S=$0; I=$1; cp evidence/$I.json .cache/runseeds/$I.ev.bak 2>/dev/null; VERIF_SEED=$S ./check $I --tier quick > .cache/runseeds/$I.$S.log 2>&1; E=$?; echo "seed=$S $I exit=$E $(grep -m1 "^VIOLATION\|^OK" .cache/runseeds/$I.$S.log)"' | tee .cache/runseeds/summary.txt | grep -v " exit=0 OK"
echo "total: $(wc -l < .cache/runseeds/summary.txt) runs, non-OK: $(grep -vc ' exit=0 OK' .cache/runseeds/summary.txt)"
