#!/venv/bin/python
"""Write seeded/<id>-<m>/meta.json from the agent's meta, our seedcheck/seedsuite results, and print the DESIGN.md table."""
import glob, json, os, re, sys
VERIF = os.path.dirname(os.path.dirname(os.path.abspath(__file__)))
rows = []
for d in sorted(glob.glob(os.path.join(VERIF, "seeded", "C*-*m*"))):
    name = os.path.basename(d); pid, m = name.split("-")
    agent = {}
    if os.path.exists(os.path.join(d, "meta.agent.json")):
        try:
            agent = json.load(open(os.path.join(d, "meta.agent.json")))
        except Exception:
            agent = {}
    ran = json.load(open(os.path.join(d, "ran.json"))) if os.path.exists(os.path.join(d, "ran.json")) else {}
    checks = {}
    for log in sorted(glob.glob(os.path.join(d, "check_*.log"))):
        cid = os.path.basename(log)[6:-4]
        txt = open(log).read()
        v = re.search(r"^VIOLATION property=\S+ replay=\S+(.*)$", txt, flags=re.M)
        fi = re.findall(r"^\s+failing input \[([^\]]+)\]", txt, flags=re.M)
        nl = re.findall(r"^\s+no longer checks: (.*)$", txt, flags=re.M)
        checks[cid] = {"violation": bool(v), "no_failing_input_found": bool(v and "no-failing-input-found" in v.group(1)),
                       "failing_input_keys": sorted(set(fi))[:6], "no_longer_checks": nl[:6]}
    suite = None
    for f in ("suite_confirm.log",):
        if os.path.exists(os.path.join(d, f)):
            suite = open(os.path.join(d, f)).read().strip().split("\n")[-1]
    meta = {
        "property": pid, "change": m,
        "summary": agent.get("summary"), "needs_to_manifest": (agent.get("needs") or agent.get("needs_to_manifest")), "files": agent.get("files"),
        "what_was_run": {
            "demo_on_clean_tree_exit": ran.get("demo_clean_exit"), "demo_with_change_exit": ran.get("demo_mutated_exit"),
            "test_suite_with_change": suite or ("as reported by the seeding run: " + str(agent.get("suite"))),
            "commands": ["tools/seedcheck.sh <scratch worktree> %s %s  (applies patch.diff in the scratch worktree, runs demo.py clean and mutated, "
                         "runs ./check with PYNN_REPO pointing at the mutated worktree)" % (pid, m),
                         "tools/seedsuite.sh <scratch worktree> %s %s  (unedited test suite with the change applied)" % (pid, m)],
            "checks": checks,
        },
        "caught_by": sorted(c for c, r in checks.items() if r["violation"]),
    }
    json.dump(meta, open(os.path.join(d, "meta.json"), "w"), indent=1)
    rows.append((name, pid, agent.get("summary") or "", meta["caught_by"], checks))
print("| seeded change | what it is | needs | caught by | how |")
print("|---|---|---|---|---|")
for name, pid, summ, caught, checks in rows:
    d = os.path.join(VERIF, "seeded", name)
    agent = json.load(open(os.path.join(d, "meta.agent.json"))) if os.path.exists(os.path.join(d, "meta.agent.json")) else {}
    how = []
    for c in caught:
        r = checks[c]
        if r["failing_input_keys"]:
            how.append("%s: failing input `%s`" % (c, r["failing_input_keys"][0]))
        else:
            how.append("%s: %s" % (c, (r["no_longer_checks"] or ["no-failing-input-found"])[0][:60]))
        if r["no_longer_checks"]:
            how[-1] += " (+ %s)" % r["no_longer_checks"][0][:50]
    print("| %s | %s | %s | %s | %s |" % (name, (summ or "")[:110].replace("|", "/"), str(agent.get("needs", ""))[:110].replace("|", "/").replace("\n", " "),
                                        ", ".join(caught) or "**missed**", "; ".join(how)[:200].replace("|", "/")))
