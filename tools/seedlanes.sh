#!/bin/bash
# tools/seedlanes.sh <nlanes> <jobs-file>
# jobs-file: one "<worktree> <property id> <change name> [extra check ids]" per line.
# Every lane is a private copy of this checkout under /tmp/lane_<k>/verif (so the Gen/*.lean files regenerated from a
# changed worktree, and the driver relinked for it, never disturb another lane or /verif itself); seedcheck.sh runs there
# and the records (seeded/<id>-<m>/) are copied back here afterwards.
N=$1; JOBS=$2; LB=${LANE_BASE:-0}     # LANE_BASE: use /tmp/lane_<LB+1..LB+N> (a batch may still be running in the lower ones)
cd "$(dirname "$0")/.."
HERE=$(pwd)
for k in $(seq 1 $N); do
  mkdir -p /tmp/lane_$((LB+k))
  rsync -a --delete --exclude .git --exclude replays --exclude '.cache/runall' --exclude '.cache/runseeds' $HERE/ /tmp/lane_$((LB+k))/verif/
done
run_lane() {
  k=$1
  # all changes of one worktree go to the same lane (the change is applied inside the worktree)
  awk -v n=$N -v k=$k 'NF { if (!($1 in lane)) { lane[$1] = c % n; c++ } if (lane[$1] == k-1) print }' $JOBS | while read WT PID M EXTRA; do
    ( cd /tmp/lane_$((LB+k))/verif && SEED_NOREGEN=1 tools/seedcheck.sh $WT $PID $M $EXTRA 2>&1 | sed "s/^/[$PID-$M] /" )
    mkdir -p $HERE/seeded/$PID-$M && cp -r /tmp/lane_$((LB+k))/verif/seeded/$PID-$M/. $HERE/seeded/$PID-$M/
  done
}
for k in $(seq 1 $N); do run_lane $k & done
wait
echo "lanes done"
