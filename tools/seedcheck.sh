#!/bin/bash
# tools/seedcheck.sh <worktree> <property id> <m1|m2> [extra check ids...]
# Verifies a seeded change delivered in <worktree>/seed/<m>/ and runs our check(s) against it.
# The change is applied in the scratch worktree (PYNN_REPO points the checks at it); /repo is not touched.
WT=$1; PID=$2; M=$3; shift 3; CHECKS="$PID $@"
cd "$(dirname "$0")/.."
S=$WT/seed/$M
DEST=seeded/$PID-$M
[ -f $S/patch.diff ] || { echo "no patch in $S"; exit 2; }
mkdir -p $DEST; cp $S/patch.diff $S/demo.py $DEST/; cp $S/meta.json $DEST/meta.agent.json 2>/dev/null
export PYTHONPATH=$WT NUMBA_CACHE_DIR=$WT/.nbcache_seedcheck
git -C $WT checkout -q -- pynndescent; rm -rf $WT/.nbcache_seedcheck $WT/pynndescent/__pycache__
( cd $WT && timeout 900 /venv/bin/python $S/demo.py > $OLDPWD/$DEST/demo_clean.log 2>&1 ); DC=$?
git -C $WT apply $S/patch.diff || { echo "patch does not apply"; exit 2; }
rm -rf $WT/.nbcache_seedcheck $WT/pynndescent/__pycache__
( cd $WT && timeout 900 /venv/bin/python $S/demo.py > $OLDPWD/$DEST/demo_mutated.log 2>&1 ); DM=$?
unset PYTHONPATH NUMBA_CACHE_DIR
echo "demo clean exit=$DC mutated exit=$DM"
RES=""
for C in $CHECKS; do
  cp evidence/$C.json /tmp/evidence_$C.bak 2>/dev/null
  PYNN_REPO=$WT timeout 3000 ./check $C --tier quick > $DEST/check_$C.log 2>&1; E=$?
  cp /tmp/evidence_$C.bak evidence/$C.json 2>/dev/null
  L=$(grep -m1 "^VIOLATION" $DEST/check_$C.log)
  echo "check $C exit=$E $L"
  RES="$RES $C:exit=$E"
done
git -C $WT checkout -q -- pynndescent; rm -rf $WT/.nbcache_seedcheck $WT/pynndescent/__pycache__
# regenerate Gen/ from the real repo again
[ -n "$SEED_NOREGEN" ] || for t in harness/translate_*.py; do /venv/bin/python $t > /dev/null 2>&1; done
echo "{\"demo_clean_exit\": $DC, \"demo_mutated_exit\": $DM, \"checks\": \"$RES\"}" > $DEST/ran.json
