#!/venv/bin/python
"""Regenerate seeded/*/meta.json and the table of DESIGN.md section 12.5 (between the SEEDED_TABLE markers)."""
import os, re, subprocess, sys
VERIF = os.path.dirname(os.path.dirname(os.path.abspath(__file__)))
table = subprocess.run([sys.executable, os.path.join(VERIF, "tools", "seedreport.py")], capture_output=True, text=True, check=True).stdout.strip()
p = os.path.join(VERIF, "DESIGN.md"); s = open(p).read()
block = "<!-- SEEDED_TABLE_BEGIN -->\n" + table + "\n<!-- SEEDED_TABLE_END -->"
if "SEEDED_TABLE_PLACEHOLDER" in s:
    s = s.replace("SEEDED_TABLE_PLACEHOLDER", block)
else:
    s = re.sub(r"<!-- SEEDED_TABLE_BEGIN -->.*?<!-- SEEDED_TABLE_END -->", lambda m: block, s, flags=re.S)
open(p, "w").write(s)
print("rows:", table.count("\n") - 1)
