#!/bin/bash
# tools/seedsuite.sh <worktree> <id> <m>...  : confirm that the unedited test suite still gives the baseline result
# (144 passed, 2 failed sokalmichener) with each seeded change applied. Sequential per worktree.
WT=$1; PID=$2; shift 2
cd "$(dirname "$0")/.."
for M in "$@"; do
  S=$WT/seed/$M; DEST=seeded/$PID-$M
  [ -f $S/patch.diff ] || continue
  git -C $WT checkout -q -- pynndescent; rm -rf $WT/.nbcache_suite $WT/pynndescent/__pycache__
  git -C $WT apply $S/patch.diff || { echo "$PID $M: patch does not apply"; continue; }
  ( cd $WT && PYTHONPATH=$WT NUMBA_CACHE_DIR=$WT/.nbcache_suite timeout 3000 /venv/bin/python -m pytest -q -p no:cacheprovider --timeout=900 pynndescent/tests 2>&1 | tail -6 ) > $DEST/suite_confirm.log
  git -C $WT checkout -q -- pynndescent; rm -rf $WT/.nbcache_suite $WT/pynndescent/__pycache__
  echo "$PID $M: $(tail -1 $DEST/suite_confirm.log)"
done
