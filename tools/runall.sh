#!/bin/bash
# Run every claimed check's quick (or $1=thorough) command, N at a time; summary at the end.
cd "$(dirname "$0")/.."
TIER=${1:-quick}; PAR=${2:-4}
mkdir -p .cache/runall
ids=$(python3 -c "import json; print(' '.join(c['property_id'] for c in json.load(open('MANIFEST.json'))['checks']))")
echo $ids | tr ' ' '\n' | xargs -P $PAR -I{} sh -c "./check {} --tier $TIER > .cache/runall/{}.log 2>&1; echo {} exit=\$? \$(tail -1 .cache/runall/{}.log)"
